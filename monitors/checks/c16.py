"""C16 - conditional assembly and command-line defines select exactly one world.

A direct interpreter (gen/ifs.py World) decides which arm of every #if/#elif/#else chain is live
under a define assignment; the program in which every chain is textually replaced by its selected
arm (the one-world twin) is assembled by customasm itself and must give the same success, bits and
symbols as the conditional program with the defines. Unknown defines and undecidable conditions
must be errors.
"""
import lib
import runner
from gen import ifs as GI
from model import expr as M

SPEC = {
    "level": "exploration",
    "technique": "reference-model monitor (direct interpreter of arm selection) + differential execution against the one-world twin program; real-binary runs for the documented -d spellings",
    "level_text": ("Exploration: generated condition trees (depth <= 4, elif chains <= 5, conditions over constants declared "
                   "before, after and inside other arms) x 4 define assignments each (ints, hex, negative, booleans, valueless, "
                   "hierarchical names, unknown names); the interpreter's selected world is rendered without any #if and "
                   "assembled by the same assembler, and both runs must agree on success, bits and symbols."),
    "level_note": ("The twin is assembled by customasm itself, so only the selection logic is modelled (about 80 lines). "
                   "A constant that exists only in an unselected arm is 'not declared' for the purpose of defines."),
    "design_ref": "DESIGN.md section 5, C16",
    "budget_s": {"quick": 55, "thorough": 900},
    "needs": ["probe-rel", "cli-rel"],
    "rule": ("condition trees x define assignments; non-trivial = case with >= 2 chains (or nesting >= 2) in which at least one "
             "define changes the selected world relative to the no-define run, or a confirmed rejection (unknown define, "
             "undecidable condition); distinct = distinct (source, defines)"),
    "monitors": ["one-world-equality", "value-model", "reject-equals-model", "cli-define-spellings", "once-in-dead-arm"],
    "min_nontrivial": {"quick": 500, "thorough": 10000},
    "assumptions": ["constants in conditions are global names (relative names cannot be decided before layout, by design)"],
}


def gen_defines(rng, tree_consts):
    """Returns list of (name, value tuple, job define dict, cli spelling)."""
    out = []
    for _ in range(rng.choice([0, 1, 1, 2, 3])):
        r = rng.random()
        name = rng.choice(["A", "B", "V1", "V2", "V3", "V4", "FLAG0", "FLAG1"]) if r < 0.9 else rng.choice(["ZZ", "nothere", "L1", "A.b"])
        k = rng.random()
        if name.startswith("FLAG") or k < 0.2:
            b = rng.random() < 0.5
            if rng.random() < 0.3 and b:
                out.append((name, ("bool", True), {"name": name, "bool": True}, "-d%s" % name))
            else:
                out.append((name, ("bool", b), {"name": name, "bool": b}, "-d%s=%s" % (name, "true" if b else "false")))
        else:
            v = rng.randint(-3, 7)
            if rng.random() < 0.3 and v >= 0:
                txt = "0x%x" % v
                val = ("int", v, 4 * len("%x" % v))
            else:
                txt = str(v)
                val = ("int", v, None)
            out.append((name, val, {"name": name, "int": txt}, rng.choice(["-d%s=%s", "--define=%s=%s"]) % (name, txt)))
    # one define per name
    seen = set()
    uniq = []
    for d in out:
        if d[0] not in seen:
            seen.add(d[0])
            uniq.append(d)
    return uniq


def count_chains(nodes, depth=1):
    n, maxd = 0, 0
    for x in nodes:
        if x[0] == "if":
            n += 1
            maxd = max(maxd, depth)
            for c, b in x[1]:
                a, d = count_chains(b, depth + 1)
                n += a
                maxd = max(maxd, d)
            if x[2]:
                a, d = count_chains(x[2], depth + 1)
                n += a
                maxd = max(maxd, d)
    return n, maxd


def reparent_trigger(live):
    """Known finding KF-C16-reparent: a level-0 label that came out of an arm is followed (before
    the next level-0 declaration) by a nested declaration that was written after the chain."""
    return False


def has_label_in_arm(nodes, in_arm=False):
    for x in nodes:
        if x[0] == "label" and x[2] == 0 and in_arm:
            return True
        if x[0] == "if":
            for c, b in x[1]:
                if has_label_in_arm(b, True):
                    return True
            if x[2] and has_label_in_arm(x[2], True):
                return True
    return False


def shard(ctx):
    worker = ctx.worker("rel")
    i = ctx.shard
    n = 0
    while not ctx.out_of_time():
        rng = ctx.rng(i)
        i += ctx.nshards
        n += 1
        g = GI.Gen(rng)
        tree = g.body(rng.choice([1, 2, 2, 3, 4]), top=True)
        src = GI.render(tree) + "\n"
        chains, depth = count_chains(tree)
        base_world = None
        for k in range(4):
            defs = gen_defines(rng, None) if k > 0 else []
            job = lib.asm_job({"main.asm": src}, want=["symbols", "msgs"], opts={"defines": [d[2] for d in defs]})
            rec = worker.run(job)
            ctx.evaluated()
            if lib.abnormal(rec):
                ctx.excluded += 1
                continue
            world = GI.World(tree, {d[0]: d[1] for d in defs})
            try:
                live = world.run()
                rejected = None
            except GI.Reject as e:
                live, rejected = None, str(e)
            except (M.EvalError, M.Decline) as e:
                live, rejected = None, "eval:" + str(e)
            if rejected is not None:
                ctx.monitor("reject-equals-model")
                if lib.ok(rec):
                    what = "define-without-constant-accepted" if rejected.startswith("define names") else "undecidable-accepted"
                    ctx.violation("one-world", {"kind": what, "names_a_label": any(d[0].startswith("L") for d in defs)}, job,
                                  {"reject": rejected}, {"out": rec["out"]["hex"][:80]})
                else:
                    ctx.count("rejected:" + rejected.split(":")[0])
                    ctx.nontrivial_case((src + repr(defs)).encode())
                continue
            twin_src = GI.render(live) + "\n"
            twin_job = lib.asm_job({"main.asm": twin_src}, want=["symbols", "msgs"], opts={"defines": [d[2] for d in defs]})
            twin = worker.run(twin_job)
            ctx.evaluated()
            if lib.abnormal(twin):
                ctx.excluded += 1
                continue
            ctx.monitor("one-world-equality")
            a, b = lib.result_key(rec), lib.result_key(twin)
            same = a[0] == b[0] and a[1:3] == b[1:3] and (a[0] != "ok" or sorted(a[3]) == sorted(b[3]))
            if not same:
                sig = {"kind": "differs-from-one-world-twin", "cond": a[0], "twin": b[0],
                       "nested_declaration_follows_a_global_from_a_later_round": GI.reparent_trigger(world, live)}
                ctx.violation("one-world", sig, job, {"twin_source": twin_src, "twin": b[0], "bits": (b[2] or "")[:80] if b[0] == "ok" else None},
                              {"cond": a[0], "bits": (a[2] or "")[:80] if a[0] == "ok" else None, "msgs": lib.first_messages(rec)})
                continue
            # independent of the twin: the bits the interpreter's world prescribes (defines replace values everywhere)
            if a[0] == "ok":
                ctx.monitor("value-model")
                exp = GI.expected_bits(world, live)
                got = lib.out_bits(rec)
                if exp is not None and got != exp:
                    ctx.violation("one-world", {"kind": "bits-differ-from-interpreter", "defines": len(defs) > 0,
                                                "nested_declaration_follows_a_global_from_a_later_round": GI.reparent_trigger(world, live)}, job,
                                  {"len": exp[0], "bits": hex(exp[1])}, {"len": got[0], "bits": hex(got[1])})
                    continue
            if k == 0:
                base_world = twin_src
            ctx.count("agree:" + a[0])
            if (chains >= 2 or depth >= 2) and (k > 0 and twin_src != base_world):
                ctx.nontrivial_case((src + repr(defs)).encode())
                ctx.sample({"source": src[:900], "defines": [d[3] for d in defs], "one_world": twin_src[:400], "result": a[0], "bits": ((a[2] or "")[:40] if a[0] == "ok" else None)}, limit=1)
        if n % 60 == 0:
            cli_case(ctx, rng)
        if n % 8 == 0:
            once_case(ctx, rng, worker)


def once_case(ctx, rng, worker):
    """A `#once` written inside an arm that is not selected has no effect: the file is spliced at every inclusion."""
    flags = {"FA": rng.random() < 0.5, "FB": rng.random() < 0.5}
    over = {k: rng.random() < 0.5 for k in flags if rng.random() < 0.6}
    final = dict(flags); final.update(over)
    shape = rng.choice(["if", "if-else", "if-elif-else"])
    arms = [("FA", 0xa1)] + ([("FB", 0xb1)] if shape == "if-elif-else" else [])
    has_else = shape != "if"
    selected = next((i for i, (c, _) in enumerate(arms) if final[c]), len(arms) if has_else else None)
    slots = len(arms) + (1 if has_else else 0)
    dead = [i for i in range(slots) if i != selected]
    if not dead:
        return
    where = rng.choice(dead)
    lib_lines = []
    for i in range(slots):
        if i < len(arms):
            lib_lines.append(("#if %s" if i == 0 else "#elif %s") % arms[i][0])
            mark = arms[i][1]
        else:
            lib_lines.append("#else")
            mark = 0xe1
        lib_lines += ["{"] + (["    #once"] if i == where else []) + ["    #d8 0x%02x" % mark, "}"]
    lib_lines.append("#d8 0xaa")
    k = rng.randint(2, 4)
    inc = rng.choice(['#include "lib.asm"', '#include "./lib.asm"', '#include "/lib.asm"'])
    main = "\n".join(["%s = %s" % (n, "true" if v else "false") for n, v in sorted(flags.items())] + ["#d8 0x11"] + [inc] * k + ["#d8 0x22"]) + "\n"
    per = ([arms[selected][1]] if selected is not None and selected < len(arms) else [0xe1] if selected is not None else []) + [0xaa]
    want = bytes([0x11] + per * k + [0x22]).hex()
    job = lib.asm_job({"main.asm": main, "lib.asm": "\n".join(lib_lines) + "\n"}, want=["msgs"],
                      opts={"defines": [{"name": n, "bool": v} for n, v in sorted(over.items())]})
    rec = worker.run(job)
    ctx.evaluated()
    if lib.abnormal(rec):
        ctx.excluded += 1
        return
    ctx.monitor("once-in-dead-arm")
    got = rec["out"]["hex"] if lib.ok(rec) else None
    if got != want:
        ctx.violation("one-world", {"kind": "once-in-unselected-arm-has-an-effect", "accepted": lib.ok(rec)}, job,
                      {"hex": want}, {"hex": got, "msgs": lib.first_messages(rec)})
    else:
        ctx.count("once-in-dead-arm:agree")
        ctx.nontrivial_case((main + repr(lib_lines) + repr(over)).encode())


def cli_case(ctx, rng):
    """Real binary: documented -d spellings; a defined value means the integer its literal denotes (a sign makes it an
    unsized number, exactly as the same text would in the source), so `#d8 V` accepts it iff -128 <= V <= 255."""
    src = "V = 1\nW = 2\n.n = 3\nF = false\n#if F\n{\n#d8 0xaa\n}\n#else\n{\n#d8 0xbb\n}\n#d8 V, W, W.n\n"
    v = rng.choice([rng.randint(0, 200), rng.randint(-300, 300), rng.choice([-129, -128, -127, -1, 255, 256, -255, -256, 127, 128])])
    w, nn = rng.randint(0, 200), rng.randint(0, 200)
    f = rng.random() < 0.5
    style = rng.choice(["dec", "hex", "bin", "hex0"])
    mag = abs(v)
    vtxt = ("-" if v < 0 else "") + (str(mag) if style == "dec" else "0x%x" % mag if style == "hex" else "0b" + bin(mag)[2:] if style == "bin"
                                     else "0x0%x" % mag)
    argv = ["main.asm", "-f", "hexstr", "-p", "-q",
            rng.choice(["-dV=%s", "--define=V=%s"]) % vtxt,
            rng.choice(["-dW=0x%x", "--define=W=0x%x"]) % w,
            "-dW.n=%d" % nn]
    if f:
        argv.append(rng.choice(["-dF", "-dF=true", "--define=F"]))
    if rng.random() < 0.4:
        # further output groups after (or between) the defines: defines are global wherever they appear
        tail = ["--", "-f", "symbols", "-o", "syms.txt"]
        if rng.random() < 0.5 and len(argv) > 6:
            moved = argv.pop()           # one define travels into the last group
            tail.append(moved)
        argv += tail
    res = runner.run_cli(ctx.cli("rel"), argv, {"main.asm": src}, cpu_s=10)
    ctx.evaluated()
    ctx.monitor("cli-define-spellings")
    # a non-negative hex/binary literal keeps its digit width as its size: `#d8` then accepts it iff that width is <= 8
    if v >= 0 and style in ("hex", "bin", "hex0"):
        width = (len(vtxt) - 2) * (4 if style != "bin" else 1)
        fits = width <= 8
    else:
        fits = -128 <= v <= 255
    job = {"mode": "process", "argv": ["customasm"] + argv, "files": [["main.asm", src]]}
    if fits:
        want = ("aa" if f else "bb") + "%02x%02x%02x" % (v & 0xff, w, nn)
        got = res["stdout"].strip()
        if res["status"] != 0 or got != want:
            ctx.violation("cli-defines", {"kind": "define-spelling-not-honoured"}, job,
                          {"stdout": want}, {"status": res["status"], "stdout": got, "stderr": res["stderr"][:200]})
        else:
            ctx.count("cli-ok")
    else:
        if res["status"] == 0:
            ctx.violation("cli-defines", {"kind": "defined-value-cut-to-fit", "negative": v < 0, "spelling": style}, job,
                          {"stdout": "", "status": 1}, {"status": res["status"], "stdout": res["stdout"].strip()[:40]})
        else:
            ctx.count("cli-rejected-as-expected")


def replay(ctx, v):
    job = v["job"]
    if job.get("mode") == "process":
        res = runner.run_cli(ctx.cli("rel"), job["argv"][1:], {f[0]: f[1] for f in job["files"]}, cpu_s=10)
        if res["stdout"].strip() != v["expected"]["stdout"] or ("status" in v["expected"] and res["status"] != v["expected"]["status"]):
            ctx.violation(v["oracle"], v["sig"], job, v["expected"], res["stdout"])
        return
    worker = ctx.worker("rel")
    rec = worker.run(job)
    exp = v["expected"]
    if "twin_source" in exp:
        twin = worker.run(lib.asm_job({"main.asm": exp["twin_source"]}, want=["symbols"], opts=job.get("opts")))
        a, b = lib.result_key(rec), lib.result_key(twin)
        if a[0] != b[0] or a[1:3] != b[1:3]:
            ctx.violation(v["oracle"], v["sig"], job, exp, a[0])
    elif "reject" in exp and lib.ok(rec):
        ctx.violation(v["oracle"], v["sig"], job, exp, "accepted")
