"""C08 - the two optimisation switches never change any result.

Differential monitor: the same job is executed under the four AssemblyOptions combinations
(optimize_statically_known x optimize_instruction_matching) and several iteration budgets; success,
output bits and all symbol values must be identical.
"""
import re
import lib
from gen import workload

SPEC = {
    "level": "exploration",
    "technique": "differential execution monitor: every job run under all four optimisation-switch combinations x iteration budgets, observable results compared",
    "level_text": ("Exploration by differential execution: each generated/corpus/mutated program is assembled by the real "
                   "library under the four switch combinations and budgets {1,2,3,10}; any difference in success, bits or "
                   "symbol values is a violation. Model-free, so it applies to the whole corpus and to mutants."),
    "level_note": ("No reference model: the oracle is agreement between the code paths. A defect present identically in all "
                   "four paths is invisible here (C01/C02 own that). Diagnostic text is not compared, only success/failure."),
    "design_ref": "DESIGN.md section 5, C08",
    "budget_s": {"quick": 55, "thorough": 1100},
    "needs": ["probe-rel"],
    "rule": ("jobs drawn from every generator (static ISAs, cascading ISAs, test corpus, token-level mutants of both) x "
             "budgets {1,2,3,10}, each executed under the 4 switch combinations; non-trivial = job that assembles "
             "successfully under at least one combination and contains at least one instruction; distinct = distinct (files, budget)"),
    "monitors": ["four-way-equality"],
    "min_nontrivial": {"quick": 500, "thorough": 20000},
    "assumptions": ["agreement of code paths is the oracle; common-mode faults are out of scope"],
}

COMBOS = [(True, True), (False, True), (True, False), (False, False)]
BUDGETS = [1, 2, 3, 10]

LEAD_RE = re.compile(r"^\s*([^\s;]+)")


RULE_LINE = re.compile(r"^\s*([^\s{=;#][^{=;\s]*)", re.M)


def rule_prefixes(text):
    """Glued leading literal characters (<= 4, lower-cased) of every rule pattern in the text: the key under
    which the matcher optimisation indexes the rule."""
    out = set()
    for m in re.finditer(r"#(?:sub)?ruledef[^{]*\{(.*?)\n\}", text, re.S):
        for line in m.group(1).split("\n"):
            if "=>" not in line:
                continue
            pat = line.split("=>")[0].strip()
            lead = re.match(r"[^\s{]*", pat).group(0).lower()
            if len(lead) >= 2:
                out.add(lead[:4])
    return out


def blank_in_prefix_trigger(files):
    """Trigger predicate of the known findings KF-C08-prefix-blank*: some instruction line spells the indexed
    prefix of some rule (its first <= 4 glued literal characters) with a blank inside it, e.g. `h a l t` or
    `st x` against rules `halt` / `stx`, `a , 5` against `a,{x}`."""
    prefixes = set()
    texts = []
    for name, text in files.items():
        if isinstance(text, bytes):
            text = text.decode("utf8", "replace")
        texts.append(text)
        prefixes |= rule_prefixes(text)
    if not prefixes:
        return False
    for text in texts:
        for line in text.split("\n"):
            s = line.split(";")[0].strip().lower()
            if not s or s.startswith("#"):
                continue
            glued = re.sub(r"[ \t]+", "", s)
            for p in prefixes:
                if glued.startswith(p) and not s.startswith(p):
                    return True
    return False


def run_all(ctx, worker, w, budget):
    recs = []
    for (st, mt) in COMBOS:
        job = workload.job_of(w, want=["symbols"], opts={"iters": budget, "opt_static": st, "opt_matcher": mt})
        recs.append((job, worker.run(job)))
    return recs


def short(k):
    return (k[0], (k[1], (k[2] or "")[:80]) if k[0] == "ok" else None)


def compare(ctx, w, budget, recs):
    ctx.evaluated(len(recs))
    if any(lib.abnormal(r) for _, r in recs):
        ctx.excluded += 1
        ctx.count("abnormal")
        return None
    ctx.monitor("four-way-equality")
    keys = [lib.result_key(r) for _, r in recs]
    if all(k == keys[0] for k in keys):
        return keys[0]
    # one violation per axis and per fixed value of the other switch, so that independent causes are
    # recognised independently (COMBOS order: (st,mt) = TT, FT, TF, FF)
    trigger = blank_in_prefix_trigger(w["files"])
    for other, (on, off) in (("matcher=on", (0, 1)), ("matcher=off", (2, 3))):
        if keys[on] != keys[off]:
            sig = {"axis": "static", "budget_is_1": budget == 1, "on": keys[on][0], "off": keys[off][0]}
            ctx.violation("switch-equality", sig, recs[on][0], {"equal": True},
                          {"static=on": short(keys[on]), "static=off": short(keys[off]), "with": other,
                           "budget": budget, "tag": w["tag"]})
    for other, (on, off) in (("static=on", (0, 2)), ("static=off", (1, 3))):
        if keys[on] != keys[off]:
            sig = {"axis": "matcher", "blank_inside_indexed_prefix": trigger, "on": keys[on][0], "off": keys[off][0]}
            ctx.violation("switch-equality", sig, recs[on][0], {"equal": True},
                          {"matcher=on": short(keys[on]), "matcher=off": short(keys[off]), "with": other,
                           "budget": budget, "tag": w["tag"]})
    return None


def shard(ctx):
    worker = ctx.worker("rel")
    i = ctx.shard
    while not ctx.out_of_time():
        rng = ctx.rng(i)
        i += ctx.nshards
        w = workload.draw(rng, kinds=("isa", "casc", "corpus", "mut", "isamut", "macro", "deep", "chain", "ifs"), weights=(3, 4, 1, 3, 2, 3, 3, 1, 1))
        ctx.count("kind:" + w["kind"])
        budgets = BUDGETS if w["kind"] in ("casc", "corpus", "deep") else [rng.choice(BUDGETS), 10]
        for b in sorted(set(budgets)):
            recs = run_all(ctx, worker, w, b)
            k = compare(ctx, w, b, recs)
            if k and k[0] == "ok":
                ctx.count("agree-ok")
                ctx.nontrivial_case(lib_digest(w, b))
                ctx.sample({"tag": w["tag"], "budget": b, "four_way": "equal", "bits": (k[2] or "")[:64],
                            "source_head": next(iter(w["files"].values()))[:300] if w["kind"] != "corpus" else w["tag"]}, limit=2)
            elif k:
                ctx.count("agree-fail")


def lib_digest(w, b):
    import hashlib
    h = hashlib.sha256()
    for n in sorted(w["files"]):
        c = w["files"][n]
        h.update(n.encode())
        h.update(c if isinstance(c, bytes) else c.encode("utf8", "replace"))
    h.update(str(b).encode())
    return h.digest()[:8]


def replay(ctx, v):
    worker = ctx.worker("rel")
    job = dict(v["job"])
    budget = (job.get("opts") or {}).get("iters", 10)
    recs = []
    for (st, mt) in COMBOS:
        j = dict(job)
        o = dict(j.get("opts") or {})
        o["opt_static"], o["opt_matcher"] = st, mt
        j["opts"] = o
        recs.append((j, worker.run(j)))
    files = {f[0]: (f[1] if isinstance(f[1], str) else "") for f in job["files"]}
    compare(ctx, {"files": files, "tag": "replay"}, budget, recs)
