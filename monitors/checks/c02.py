"""C02 - a successful result is a genuine fixed point, never a stale guess.

Three monitors on every successful run: (i) certificate check of the claimed state against the
language rules (model/certificate.py) on generated value-dependent programs; (ii) U4 - the
implementation's own step function re-run with every short-circuit flag cleared must change nothing;
(iii) U5 - the pass trace must end with a guessing-forbidden pass that resolved.
"""
import lib
from gen import isa as G
from gen import workload
from model import certificate
from checks import c09
from checks.c08 import lib_digest

SPEC = {
    "level": "translation_validation",
    "technique": "certificate checking of the claimed fixed point (independent re-derivation of every instruction and label from the final symbol values) + invariant hook re-evaluating one more pass + pass-trace specification",
    "level_text": ("Translation validation per accepted program: the state the assembler claims (symbol values, per-item "
                   "spans, bits) is validated against the rules - every instruction is re-encoded from the final symbol "
                   "values at its claimed address, must select a unique smallest satisfiable rule, and must equal the emitted "
                   "bits; every label must equal the address obtained by accumulating the claimed sizes. Swept over budgets "
                   "1..30 and the four switch combinations; U4/U5 are model-free and also run on corpus and mutants."),
    "level_note": ("Certificate checker trusts model/asm.py + model/expr.py. U4 uses customasm's own resolve_once as step "
                   "function (it cannot see a defect that resolve_once repeats identically). Success is never demanded of a "
                   "value-dependent program - only consistency or an error."),
    "design_ref": "DESIGN.md sections 4 (U4, U5) and 5 (C02)",
    "budget_s": {"quick": 55, "thorough": 1200},
    "needs": ["probe-rel"],
    "rule": ("programs over generated instruction sets with cascading families (typed widths, assert-guarded short forms, "
             "pc-relative short forms), forward references, data, reservations x budgets drawn from 1..30 x switch "
             "combinations; plus corpus/mutant jobs for U4/U5; programs counts successful runs whose certificate was "
             "checked; non-trivial = successful run containing >= 1 instruction with candidates of different sizes and a "
             "pass trace with >= 2 unresolved passes; distinct = distinct (source, budget, switches)"),
    "monitors": ["unique-layout-value", "certificate", "u4-recheck", "u5-trace", "error-has-no-output"],
    "min_nontrivial": {"quick": 200, "thorough": 10000},
    "assumptions": ["spans are emitted in source order (labels, instructions, data elements)"],
}

BUDGET_POOL = [1, 2, 3, 4, 5, 6, 7, 8, 10, 12, 15, 20, 30]


def claimed_state(rec):
    syms = {}
    for s in rec.get("syms") or []:
        if not s:
            continue
        v = s["value"]
        if v["k"] == "int":
            val, size = lib.int_value(v)
            syms[s["name"]] = ("int", val, size)
        elif v["k"] == "bool":
            syms[s["name"]] = ("bool", v["v"])
        elif v["k"] == "str":
            syms[s["name"]] = ("str", v["v"], v["enc"])
        else:
            syms[s["name"]] = None
    spans = []
    for sp in rec["out"]["spans"]:
        off, size, addr = sp[0], sp[1], sp[2]
        a = -int(addr[1:], 16) if addr.startswith("-") else int(addr, 16)
        spans.append((off, size, a))
    n, v = lib.out_bits(rec)
    return syms, spans, n, v


def u4(ctx, job, rec):
    rc = rec.get("recheck")
    if rc is None:
        return
    ctx.monitor("u4-recheck")
    if "panic" in rc:
        ctx.violation("u4", {"kind": "recheck-panic", **lib.panic_sig({"panic": rc["panic"]})}, job, "no panic", rc["panic"])
        return
    bad = rc["state"] != "resolved" or rc["msgs"] or rc["sym_diff"] or not rc["rebuild_ok"] or not rc["bits_same"]
    if bad:
        kind = "state-" + rc["state"] if rc["state"] != "resolved" else "values-change" if rc["sym_diff"] else \
            "new-diagnostics" if rc["msgs"] else "bits-change"
        ctx.violation("u4", {"kind": kind, "first_msg": (rc["msgs"] or rc["rebuild_msgs"] or [""])[0][:40]}, job,
                      "one more guessing-forbidden pass changes nothing",
                      {k: rc[k] for k in ("state", "msgs", "sym_diff", "bits_same", "rebuild_msgs")})


def u5(ctx, job, rec, budget):
    ctx.monitor("u5-trace")
    why = c09.check_trace(budget, rec)
    if why:
        ctx.violation("u5", {"kind": "trace-spec", "what": why.split(":")[0][:60]}, job, "trace spec", why[:500])
        return False
    if lib.ok(rec) and rec.get("trace") and rec["trace"]["total"] == len(rec["trace"]["events"]):
        ps = c09.passes_of(rec["trace"])
        if ps and not (ps[-1][2] and ps[-1][3] == "R"):
            ctx.violation("u5", {"kind": "success-without-final-confirming-pass"}, job, "last pass is_last and Resolved", ps)
            return False
    return True


def shard(ctx):
    worker = ctx.worker("rel")
    i = ctx.shard
    while not ctx.out_of_time():
        rng = ctx.rng(i)
        i += ctx.nshards
        r0 = rng.random()
        if r0 < 0.3:
            prog = G.gen_deep_cascade(rng)
            src = G.render(prog)
            w = {"files": {"main.asm": src}, "roots": ["main.asm"], "std": False, "tag": "deep", "kind": "deep"}
        elif r0 < 0.8:
            prog = G.gen_program(rng, cascade=True, faults=False, n_items=rng.randint(4, 30))
            src = G.render(prog, split=workload.random_split(rng, len(prog["isa"]["rules"])))
            w = {"files": dict({"main.asm": src}, **prog.get("extra_files", {})), "roots": ["main.asm"], "std": False, "tag": "casc", "kind": "casc"}
        else:
            prog = None
            w = workload.draw(rng, kinds=("corpus", "mut", "isa", "isamut", "macro", "chain"), weights=(2, 2, 2, 1, 4, 3))
        budgets = rng.sample(BUDGET_POOL, 4 if prog else 2)
        if 10 not in budgets:
            budgets.append(10)
        for b in sorted(budgets):
            st, mt = (True, True) if rng.random() < 0.5 else (rng.random() < 0.5, rng.random() < 0.5)
            job = workload.job_of(w, want=["symbols", "spans", "trace", "recheck", "banks", "msgs"],
                                  opts={"iters": b, "opt_static": st, "opt_matcher": mt})
            rec = worker.run(job)
            ctx.evaluated()
            if lib.abnormal(rec):
                ctx.excluded += 1
                continue
            if not lib.ok(rec):
                ctx.monitor("error-has-no-output")
                if rec.get("has_output") or rec.get("nerrors", 0) < 1:
                    ctx.violation("error-output", {"kind": "error-with-output"}, job, "error => no output",
                                  {"has_output": rec.get("has_output"), "nerrors": rec.get("nerrors")})
                u5(ctx, job, rec, b)
                if any("converge" in (m.get("descr") or "") for m in rec.get("msgs") or []):
                    ctx.count("convergence-error")
                continue
            u4(ctx, job, rec)
            u5(ctx, job, rec, b)
            if w.get("expected_hex") is not None:
                # padding chain: the one consistent layout is known in closed form
                ctx.monitor("unique-layout-value")
                if rec["out"]["hex"] != w["expected_hex"]:
                    ctx.violation("certificate", {"kind": "not-the-unique-consistent-layout", "matcher_optimisation": mt,
                                                  "blank_inside_a_rule_literal_run": False}, job,
                                  {"bits": w["expected_hex"][:80]}, {"budget": b, "bits": rec["out"]["hex"][:80]})
                else:
                    ctx.count("chain-programs")
                    ps = c09.passes_of(rec["trace"]) if rec.get("trace") else []
                    if sum(1 for p in ps if p[3] == "U") >= 2:
                        ctx.nontrivial_case(lib_digest(w, (b, st, mt)))
                continue
            if prog is None:
                ctx.count("model-free-success")
                continue
            ctx.monitor("certificate")
            syms, spans, n, v = claimed_state(rec)
            res = certificate.check(prog, syms, spans, n, v)
            if res[0] == "unsupported":
                ctx.count("cert-unsupported:" + res[1][:30])
                continue
            if res[0] == "mismatch":
                ctx.violation("certificate", {"kind": res[1], "matcher_optimisation": mt,
                                              "blank_inside_a_rule_literal_run": lib.glued_rule_trigger(w["files"])}, job,
                              "claimed state satisfies the rules", res[2])
                continue
            ctx.count("programs")
            ctx.count("cert-instr", res[1]["instr"])
            ctx.count("cert-labels", res[1]["labels"])
            ps = c09.passes_of(rec["trace"]) if rec.get("trace") else []
            nU = sum(1 for p in ps if p[3] == "U")
            ctx.count("passes-unresolved:%d" % min(nU, 9))
            if res[1]["value_dependent"] >= 1 and nU >= 2:
                ctx.nontrivial_case(lib_digest(w, (b, st, mt)))
                ctx.sample({"source": src[:1200], "budget": b, "opt_static": st, "opt_matcher": mt, "iterations_taken": rec.get("iters"),
                            "passes": "".join(p[3] for p in ps), "certificate": res[1]}, limit=1)


def finalize(tier, counters, monitors, nontrivial, evaluations):
    return {"programs": counters.get("programs", 0), "disagreements_checked": counters.get("cert-instr", 0) + counters.get("cert-labels", 0)}


def replay(ctx, v):
    worker = ctx.worker("rel")
    job = v["job"]
    rec = worker.run(job)
    b = (job.get("opts") or {}).get("iters", 10)
    if lib.ok(rec):
        u4(ctx, job, rec)
        u5(ctx, job, rec, b)
        if v["oracle"] == "certificate":
            print("replay: certificate needs the structured program; re-run the check with the same VERIF_SEED to reproduce")
    else:
        print("replay: assembly failed now: %s" % lib.first_messages(rec))
