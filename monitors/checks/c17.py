"""C17 - asm blocks and user functions mean what their expansion means.

Differential monitor: a program using asm{} macro rules (typed / untyped / sub-rule arguments,
{arg} substitution, block-local labels, $ inside the block, nesting) and #fn calls is assembled
next to its mechanically inlined twin (block instructions written in place of the call, labels
renamed apart, function bodies substituted with parenthesised arguments); the output bits must be
identical. Recursion beyond the documented depth must be an error.
"""
import lib
from gen import limits as GL
from gen import macros as GM
from checks.c02 import u4

SPEC = {
    "level": "translation_validation",
    "technique": "differential execution monitor: macro program vs mechanically inlined twin (equality of emitted bits), plus the fixed-point re-evaluation hook on the macro program; directed recursion-depth cases",
    "level_text": ("Translation validation per generated (macro program, inlined twin) pair: the twin is produced by a "
                   "text-level inliner independent of customasm, both are assembled by the real library and every emitted bit "
                   "must agree (base instruction sets are size-static, so the inlined program has one layout). User functions "
                   "are compared with their substituted bodies the same way. Recursion through asm blocks and functions is "
                   "driven past the documented depth (25) and must be diagnosed."),
    "level_note": ("The inliner (gen/macros.py, about 60 lines) is trusted; both programs are assembled by customasm, so a "
                   "defect that affects plain instructions identically is invisible here (C01 owns that)."),
    "design_ref": "DESIGN.md section 5, C17",
    "budget_s": {"quick": 55, "thorough": 900},
    "needs": ["probe-rel"],
    "rule": ("pairs (macro program, inlined twin) over generated base rules (2-5) + 1-4 macro rules (0-3 params, 1-2 asm "
             "blocks, local labels, nesting through earlier macros) + 0-3 functions; programs counts pairs whose twin "
             "assembled; non-trivial = pair with >= 2 macro/function uses where both assembled and were compared, or both "
             "failed; distinct = distinct macro source"),
    "monitors": ["macro-equals-inlined", "u4-recheck", "recursion-limit"],
    "min_nontrivial": {"quick": 500, "thorough": 10000},
    "assumptions": ["block-local labels may be renamed apart without changing meaning"],
}


def recursion_cases(ctx, worker):
    cases = []
    for depth in (1, 5, 10, 12, 13, 20, 24, 25, 26, 27, 30, 60):
        # chain of asm macros m0 -> m1 -> ... -> m_depth -> emit
        rules = ["    emit {x: u8} => x"]
        for k in range(depth):
            rules.append("    m%d {x} => asm { %s {x} }" % (k, "m%d" % (k + 1) if k + 1 < depth else "emit"))
        # the evaluation-depth limit is the declared constant E (expr::EVAL_RECURSION_DEPTH_MAX, read from the source so
        # that changing the constant is not an alarm); a function call costs one level, an asm block two: a chain of
        # up to E calls (E // 2 blocks) is within the limit and must work, one more must be diagnosed
        limit = GL.eval_depth_max()
        if limit is None:
            v_fn = v_asm = True if depth <= 10 else False if depth >= 30 else None
        else:
            v_fn = depth <= limit
            v_asm = depth <= limit // 2
        cases.append(("asm-chain", depth, "#ruledef\n{\n" + "\n".join(rules) + "\n}\nm0 7\n", v_asm))
        fns = ["#fn f%d(v) => %s" % (k, "f%d(v) + 1" % (k + 1) if k + 1 < depth else "v") for k in range(depth)]
        cases.append(("fn-chain", depth, "\n".join(fns) + "\n#d16 f0(1)`16\n", v_fn, "%04x" % depth))
    for cyc in (1, 2, 3, 4):
        rules = ["    c%d {x} => asm { c%d {x} }" % (k, (k + 1) % cyc) for k in range(cyc)]
        cases.append(("asm-cycle", cyc, "#ruledef\n{\n" + "\n".join(rules) + "\n}\nc0 1\n", False))
        fns = ["#fn g%d(v) => g%d(v)" % (k, (k + 1) % cyc) for k in range(cyc)]
        cases.append(("fn-cycle", cyc, "\n".join(fns) + "\n#d8 g0(1)\n", False))
    for case in cases:
        kind, n, src, should_ok = case[:4]
        want_hex = case[4] if len(case) > 4 else None
        job = lib.asm_job({"main.asm": src}, want=["msgs"])
        rec = worker.run(job)
        ctx.evaluated()
        ctx.monitor("recursion-limit")
        if lib.abnormal(rec):
            ctx.violation("recursion", {"kind": "abnormal-end", "family": kind, "outcome": rec.get("outcome")}, job, "error diagnostic",
                          {"outcome": rec.get("outcome"), "panic": rec.get("panic")})
            continue
        if should_ok is False and lib.ok(rec):
            ctx.violation("recursion", {"kind": "recursion-accepted", "family": kind}, job, "error", {"out": rec["out"]["hex"][:40]})
        elif should_ok is False:
            msgs = " ".join(lib.first_messages(rec, 9) + [str(rec.get("msgs"))[:3000]])
            if "recursion" in msgs:
                ctx.count("recursion-diagnosed:" + kind)
                ctx.nontrivial_case((kind + str(n)).encode())
        elif should_ok and not lib.ok(rec):
            ctx.violation("recursion", {"kind": "nesting-within-the-limit-rejected", "family": kind, "depth": n}, job, "assembles", lib.first_messages(rec))
        elif should_ok and want_hex is not None and rec["out"]["hex"] != want_hex:
            ctx.violation("recursion", {"kind": "call-differs-from-substituted-body", "family": kind, "depth": n}, job, {"hex": want_hex}, {"hex": rec["out"]["hex"][:40]})
        elif should_ok:
            ctx.nontrivial_case((kind + "ok" + str(n)).encode())


def shard(ctx):
    worker = ctx.worker("rel")
    if ctx.shard == 0:
        recursion_cases(ctx, worker)
    i = ctx.shard
    while not ctx.out_of_time():
        rng = ctx.rng(i)
        i += ctx.nshards
        src, twin_src, info = GM.gen_pair(rng)
        job = lib.asm_job({"main.asm": src}, want=["msgs", "recheck"])
        rec = worker.run(job)
        tjob = lib.asm_job({"main.asm": twin_src}, want=["msgs"])
        twin = worker.run(tjob)
        ctx.evaluated(2)
        if lib.abnormal(rec) or lib.abnormal(twin):
            ctx.excluded += 1
            continue
        ctx.monitor("macro-equals-inlined")
        a_ok, b_ok = lib.ok(rec), lib.ok(twin)
        if a_ok:
            u4(ctx, job, rec)
        if not a_ok and b_ok and "out of range for type" in str(rec.get("msgs")):
            # a typed macro parameter rejected its argument (C04): the inlined twin has no such parameter,
            # so the pair is not comparable
            ctx.count("not-comparable:macro-parameter-range")
            continue
        if a_ok != b_ok:
            ctx.violation("macro-twin", {"kind": "success-differs", "macro": a_ok, "inlined": b_ok, "later_asm_block_is_position_dependent": info["multi_block"],
                                         "local_label_passed_to_nested_macro": info["local_label_as_macro_arg"]}, job,
                          {"twin_source": twin_src, "twin_ok": b_ok, "twin_msgs": lib.first_messages(twin)},
                          {"ok": a_ok, "msgs": lib.first_messages(rec)})
            continue
        if a_ok:
            if (rec["out"]["len"], rec["out"]["hex"]) != (twin["out"]["len"], twin["out"]["hex"]):
                ctx.violation("macro-twin", {"kind": "bits-differ", "later_asm_block_is_position_dependent": info["multi_block"]}, job,
                              {"twin_source": twin_src, "bits": twin["out"]["hex"][:120]}, {"bits": rec["out"]["hex"][:120]})
                continue
            ctx.count("programs")
            ctx.count("pairs-equal")
        else:
            ctx.count("pairs-both-fail")
        if info["uses"] >= 2:
            ctx.nontrivial_case(src.encode())
            if a_ok:
                ctx.sample({"macro_program": src[-900:], "inlined_tail": twin_src[-500:], "bits": rec["out"]["hex"][:60]}, limit=1)


def finalize(tier, counters, monitors, nontrivial, evaluations):
    return {"programs": counters.get("programs", 0), "disagreements_checked": counters.get("pairs-equal", 0) + counters.get("pairs-both-fail", 0)}


def replay(ctx, v):
    worker = ctx.worker("rel")
    rec = worker.run(v["job"])
    exp = v["expected"]
    if isinstance(exp, dict) and "twin_source" in exp:
        twin = worker.run(lib.asm_job({"main.asm": exp["twin_source"]}, want=["msgs"]))
        if lib.ok(rec) != lib.ok(twin) or (lib.ok(rec) and rec["out"]["hex"] != twin["out"]["hex"]):
            ctx.violation(v["oracle"], v["sig"], v["job"], exp, {"ok": lib.ok(rec), "bits": (rec.get("out") or {}).get("hex")})
    elif exp == "error" and lib.ok(rec):
        ctx.violation(v["oracle"], v["sig"], v["job"], exp, "accepted")
