"""C07 - instruction matching ignores case, extra spacing, comments and rule order.

Metamorphic monitor: a base program (size-static by construction, checked by the reference model)
is re-rendered eight ways - random re-casing of mnemonics and literal operands, extra blanks/tabs
between tokens, trailing and block comments next to blanks, rule permutation and re-partitioning
into several #ruledef blocks, consistent symbol renaming - and every rendering must succeed or fail
like the base and produce identical bits (symbols modulo the renaming). Literal-versus-expression
overlaps are constructed on purpose: the literal rule must win.
"""
import lib
from gen import isa as G
from gen import workload
from model import asm as A

SPEC = {
    "level": "exploration",
    "technique": "metamorphic monitor: equality of results under meaning-preserving re-renderings of generated programs (case, blanks, comments, rule order/partition, symbol renaming)",
    "level_text": ("Exploration with a metamorphic oracle: thousands of generated size-static programs, each compared with "
                   "eight re-renderings built from five transformation families; plus constructed literal-vs-expression "
                   "overlaps. No model of the output is needed, only equality; the reference model is used to exclude "
                   "programs whose sizes are value-dependent (the property excludes them)."),
    "level_note": ("Transformations never insert a blank inside a token and never remove a blank the rule requires; comments "
                   "are inserted only next to an existing blank (DESIGN section 8). Multi-token mnemonics shorter than 4 "
                   "characters are not generated (their blank sensitivity is the known finding of C08)."),
    "design_ref": "DESIGN.md section 5, C07",
    "budget_s": {"quick": 55, "thorough": 900},
    "needs": ["probe-rel"],
    "rule": ("base programs from G_isa (no value-dependent sizes) x 8 re-renderings each; literal/expression overlap "
             "programs; non-trivial = base program that assembles with >= 2 instructions and whose renderings were all "
             "compared, or a failing base whose renderings all failed; distinct = distinct base source"),
    "monitors": ["glued-suffix-case", "rendering-equality", "literal-beats-expression", "glued-rule-token"],
    "min_nontrivial": {"quick": 400, "thorough": 10000},
    "assumptions": ["symbols are case-sensitive, mnemonics and literal operands are not (as documented)"],
}


def recase(rng):
    def f(s):
        return "".join(c.upper() if rng.random() < 0.5 else c.lower() for c in s)
    return f


def gaps_for(rng, toks, comments):
    gaps = []
    for i in range(len(toks) - 1):
        r = rng.random()
        g = ""
        if r < 0.35:
            g = rng.choice([" ", "  ", "\t", " \t "])
            if comments and rng.random() < 0.3:
                g = g + ";* c%d *;" % i + rng.choice([" ", "\t"])
        gaps.append(g)
    return gaps


def render_variant(rng, prog, kind):
    """One re-rendering; returns (source, rename dict)."""
    n = len(prog["isa"]["rules"])
    order = None
    split = None
    rename = None
    style = None
    if kind in ("order", "all"):
        order = list(range(n))
        rng.shuffle(order)
        split = workload.random_split(rng, n)
    if kind in ("rename", "all"):
        names = set()
        for it in prog["items"]:
            if it[0] in ("label", "const"):
                names.add(it[1])
        # a symbol that is called like the address builtin keeps its name: written bare, `pc` means the current address,
        # so renaming that symbol (and the bare operands with it) would change the program's meaning
        names = set(n for n in names if n not in ("pc",))
        rename = {nm: "zz%d_%s" % (i, nm[::-1]) for i, nm in enumerate(sorted(names))}
    if kind in ("case", "space", "comment", "all"):
        rc = recase(rng) if kind in ("case", "all") else None
        sp = kind in ("space", "comment", "all")
        cm = kind in ("comment", "all")

        def style(idx, rc=rc, sp=sp, cm=cm):
            toks = prog["items"][idx][1]
            st = {}
            if rc:
                st["recase"] = rc
            if sp:
                st["gaps"] = gaps_for(rng, toks, cm)
            return st
    src = G.render(prog, order=order, split=split, instr_style=style, rename=rename)
    if kind in ("comment", "all"):
        lines = src.split("\n")
        out = []
        in_rule = False
        for ln in lines:
            if ln.startswith("#ruledef") or ln.startswith("#subruledef") or ln.startswith("#bankdef"):
                in_rule = True
            if ln == "}":
                in_rule = False
                out.append(ln)
                continue
            if not in_rule and ln and rng.random() < 0.3:
                ln = ln + " ; trailing comment"
            out.append(ln)
        src = "\n".join(out)
    return src, rename or {}


def key_modulo(rec, rename):
    k = lib.result_key(rec)
    if k[0] != "ok":
        return k
    inv = {v: o for o, v in rename.items()}
    syms = []
    for (name, kind, val) in k[3]:
        parts = name.split(".")
        syms.append((".".join(inv.get(p, p) for p in parts), kind, val))
    return (k[0], k[1], k[2], tuple(syms))


def overlap_program(rng):
    """`mn REG, {x}` vs `mn {r}, {x}` with a symbol named REG defined: the literal rule must win, however the two
    patterns are spaced (blanks written in a pattern are required in the instruction; they are not literal text and
    must not weigh in the precedence)."""
    reg = rng.choice(["a", "b", "x", "hl", "sp"])
    mn = rng.choice(["ld", "mov", "op"])
    val = rng.randint(0, 200)
    arg = rng.randint(0, 255)
    style = rng.choice(["const", "label"])
    blank = lambda: rng.choice(["", "", " ", "  "])
    b = [blank(), blank(), blank(), blank()] if rng.random() < 0.6 else ["", " ", "", " "]
    lines = ["#ruledef", "{",
             "    %s %s%s,%s{x: u8} => 0x01 @ x" % (mn, reg, b[0], b[1]),
             "    %s {r: u8}%s,%s{x: u8} => 0x02 @ r @ x" % (mn, b[2], b[3]),
             "}"]
    if rng.random() < 0.5:
        lines[2], lines[3] = lines[3], lines[2]
    if style == "const":
        lines.append("%s = %d" % (reg, val))
    sp = rng.choice([" ", "  ", "\t"])
    rg = reg.upper() if rng.random() < 0.5 else reg
    m = mn.upper() if rng.random() < 0.3 else mn
    before = rng.choice([" ", "  ", "\t"]) if (b[0] or b[2]) else rng.choice(["", " "])
    after = rng.choice([" ", "  ", "\t", " \t"])
    lines.append("%s%s%s%s,%s%d" % (m, sp, rg, before, after, arg))
    if style == "label":
        lines.append("%s:" % reg)
    # an explicit expression use of the symbol still works through the other rule
    lines.append("%s (%s)%s,%s%d" % (mn, reg, " " if b[2] else rng.choice(["", " "]), after, arg))
    want = "01%02x" % arg
    symval = val if style == "const" else 2
    want += "02%02x%02x" % (symval, arg)
    return "\n".join(lines) + "\n", want


SUFFIX_RULES = [("delay", "ms", 0x55), ("wait", "us", 0x66), ("ldh", "h", 0x77), ("rep", "x", 0x88), ("tick", "t", 0x99)]


def suffix_program(rng):
    """Rules whose parameter is followed by a glued literal word (`delay {n}ms`): the operand ends where that literal
    begins, in whatever letter case the instruction spells it. Returns (lower-case source, recased source, expected hex)."""
    rules = rng.sample(SUFFIX_RULES, rng.randint(1, 3))
    head = ["#ruledef", "{"]
    for mn, suf, op in rules:
        head.append("    %s {n}%s => 0x%02x @ n`8" % (mn, suf, op))
        if rng.random() < 0.4:
            head.append("    %s {n} => 0x%02x @ n`16" % (mn, (op + 1) & 0xff))     # a less literal rule for the same mnemonic
    head.append("}")
    head.append("k9 = %d" % rng.randint(0, 200))
    k9 = int(head[-1].split("=")[1])
    low, rec, want = [], [], ""
    for _ in range(rng.randint(2, 8)):
        mn, suf, op = rng.choice(rules)
        kind = rng.choice(["dec", "dec", "sym", "hex"]) if suf in ("ms", "us") else rng.choice(["dec", "dec", "sym"])
        v = rng.randint(0, 255)
        text = str(v) if kind == "dec" else ("0x%x" % v).replace("a", "4") if kind == "hex" else "k9"
        if kind == "hex":
            v = int(text, 16)
        if kind == "sym":
            v = k9
        recase = lambda w: "".join(c.upper() if rng.random() < 0.6 else c for c in w)
        low.append("%s %s%s" % (mn, text, suf))
        rec.append("%s %s%s" % (recase(mn), text, recase(suf) if rng.random() < 0.85 else suf))
        want += "%02x%02x" % (op, v & 0xff)
    return "\n".join(head + low) + "\n", "\n".join(head + rec) + "\n", want


def glued_program(rng):
    """A rule spelled as one token (`callq`) must not match the two-token line `call q` that another rule
    (`call {p}`) matches; the repository's own test tests/rule_simple/err_whitespace.asm states the intent."""
    mn = rng.choice(["call", "jump", "load", "halt"])
    suf = rng.choice(["q", "x", "w"])
    val = rng.randint(0, 200)
    lines = ["#ruledef", "{", "    %s {p} => 0x01 @ p`8" % mn, "    %s%s => 0xee" % (mn, suf), "}",
             "%s = %d" % (suf, val), "%s %s" % (mn, suf)]
    if rng.random() < 0.5:
        lines[2], lines[3] = lines[3], lines[2]
    return "\n".join(lines) + "\n", "01%02x" % val


KINDS = ["case", "space", "comment", "order", "rename", "all", "all", "all"]


def shard(ctx):
    worker = ctx.worker("rel")
    i = ctx.shard
    while not ctx.out_of_time():
        rng = ctx.rng(i)
        i += ctx.nshards
        if rng.random() < 0.02:
            src, want = glued_program(rng)
            job = lib.asm_job({"main.asm": src}, want=["msgs"])
            rec = worker.run(job)
            ctx.evaluated()
            ctx.monitor("glued-rule-token")
            if lib.abnormal(rec):
                ctx.excluded += 1
            elif not lib.ok(rec) or rec["out"]["hex"] != want:
                ctx.violation("token-boundaries", {"kind": "blank-inside-a-rule-token-is-ignored"}, job, {"hex": want},
                              {"ok": lib.ok(rec), "hex": (rec.get("out") or {}).get("hex")})
            continue
        if rng.random() < 0.06:
            low, rec, want = suffix_program(rng)
            good = True
            for which, src in (("lower", low), ("recased", rec)):
                job = lib.asm_job({"main.asm": src}, want=["msgs"])
                r = worker.run(job)
                ctx.evaluated()
                ctx.monitor("glued-suffix-case")
                if lib.abnormal(r):
                    ctx.excluded += 1
                    good = False
                elif not lib.ok(r) or r["out"]["hex"] != want:
                    ctx.violation("rendering", {"kind": "literal-suffix-after-parameter", "spelling": which}, job, {"hex": want},
                                  {"ok": lib.ok(r), "hex": (r.get("out") or {}).get("hex"), "msgs": lib.first_messages(r)})
                    good = False
            if good:
                ctx.nontrivial_case(rec.encode())
            continue
        if rng.random() < 0.1:
            src, want = overlap_program(rng)
            job = lib.asm_job({"main.asm": src}, want=["msgs"])
            rec = worker.run(job)
            ctx.evaluated()
            ctx.monitor("literal-beats-expression")
            if lib.abnormal(rec):
                ctx.excluded += 1
                continue
            if not lib.ok(rec) or rec["out"]["hex"] != want:
                ctx.violation("literal-precedence", {"kind": "literal-rule-did-not-win"}, job, {"hex": want},
                              {"ok": lib.ok(rec), "hex": (rec.get("out") or {}).get("hex"), "msgs": lib.first_messages(rec)})
            else:
                ctx.nontrivial_case(src.encode())
            continue
        prog = G.gen_program(rng, cascade=False, faults=rng.random() < 0.3)
        m = A.assemble(prog)
        if m[0] == "unsupported":
            ctx.count("skipped-value-dependent")
            continue
        base_src = G.render(prog)
        base_job = lib.asm_job({"main.asm": base_src}, want=["symbols"])
        base = worker.run(base_job)
        ctx.evaluated()
        if lib.abnormal(base):
            ctx.excluded += 1
            continue
        bk = key_modulo(base, {})
        all_equal = True
        for kind in KINDS:
            src, rename = render_variant(rng, prog, kind)
            job = lib.asm_job({"main.asm": src}, want=["symbols"])
            rec = worker.run(job)
            ctx.evaluated()
            ctx.monitor("rendering-equality")
            if lib.abnormal(rec):
                ctx.excluded += 1
                all_equal = False
                continue
            k = key_modulo(rec, rename)
            if k != bk:
                all_equal = False
                what = "success-changes" if k[0] != bk[0] else "bits-change" if k[1:3] != bk[1:3] else "symbols-change"
                ctx.violation("rendering-equality", {"kind": what, "transformation": kind, "base": bk[0], "variant": k[0]},
                              job, {"base": bk[0], "bits": (bk[2] or "")[:80] if bk[0] == "ok" else None, "base_source": base_src[:1500]},
                              {"variant": k[0], "bits": (k[2] or "")[:80] if k[0] == "ok" else None})
            else:
                ctx.count("equal:" + kind)
        if all_equal:
            n_instr = sum(1 for it in prog["items"] if it[0] == "instr")
            if bk[0] == "fail" or n_instr >= 2:
                ctx.nontrivial_case(base_src.encode())
            if bk[0] == "ok":
                ctx.sample({"base": base_src[:700], "variant_all": render_variant(rng, prog, "all")[0][:900], "bits": (bk[2] or "")[:64]}, limit=1)


def replay(ctx, v):
    worker = ctx.worker("rel")
    rec = worker.run(v["job"])
    exp = v["expected"]
    if "base_source" in exp:
        base = worker.run(lib.asm_job({"main.asm": exp["base_source"]}, want=["symbols"]))
        a, b = lib.result_key(base), lib.result_key(rec)
        if a[0] != b[0] or a[1:3] != b[1:3]:
            ctx.violation(v["oracle"], v["sig"], v["job"], exp, {"variant": b[0]})
    elif "hex" in exp:
        if not lib.ok(rec) or rec["out"]["hex"] != exp["hex"]:
            ctx.violation(v["oracle"], v["sig"], v["job"], exp, {"hex": (rec.get("out") or {}).get("hex")})
