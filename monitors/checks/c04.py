"""C04 - typed arguments and sized data accept exactly their range, never truncating.

Exhaustive enumeration monitor: every width N in 0..16 (both tiers complete; quick samples the deep rejected #d values, thorough enumerates them)
and every value v in [-2^N-4, 2^N+4], for uN / sN / iN parameters and #dN directives, in nine
spellings. Acceptance is observed through a larger untyped fallback rule (the marker bit and the
encoding size reveal which rule was taken), rejection itself (error, no output) is observed alone
for every value within 4 of a boundary and a seeded sample of the others.
"""
import zlib

import lib

SPEC = {
    "level": "exploration",
    "technique": "exhaustive enumeration of (kind, width, value, spelling) with an arithmetic range predicate as oracle; accept/reject observed through marker bits of a cascading fallback rule and through single-instruction runs; directed families for values that settle after a larger first-pass guess and for values given by command-line defines (real binary)",
    "level_text": ("Exhaustive enumeration of a finite space: all (kind in u/s/i/#d, N, v) with N <= 16 (both tiers; quick samples deep-rejected #d cells alone, thorough runs all of them alone) "
                   "(thorough), v in [-2^N-4, 2^N+4], each in nine spellings; the oracle is the arithmetic range predicate of "
                   "the property and the emitted bits must be v mod 2^N. Widths up to 256 are sampled around each boundary."),
    "level_note": ("Complete for the stated grid (exhaustive: true); trusts only Python integer arithmetic and the bit-stream "
                   "decoder of the marker scheme. Known finding: N = 0 rejects v = 0 (exact case keys)."),
    "design_ref": "DESIGN.md section 5, C04",
    "budget_s": {"quick": 70, "thorough": 1500},
    "needs": ["probe-rel", "cli-rel"],
    "rule": ("grid cells are (kind, N, v, spelling); typed kinds are assembled 400 per program next to an untyped fallback "
             "rule whose marker bit reveals rejection, #dN values are assembled in batches when the predicate accepts and "
             "alone when it rejects; non-trivial = cell within 4 of a range boundary (or the sized-literal width boundary "
             "for #d) or any rejected cell; distinct = distinct (kind, N, v, spelling)"),
    "monitors": ["typed-accept-reject", "typed-bits", "typed-reject-alone", "typed-unused-parameter", "data-accept", "data-reject-alone", "wide-boundaries", "value-settles-after-a-larger-guess", "define-literal"],
    "min_nontrivial": {"quick": 3000, "thorough": 50000},
    "assumptions": ["the fallback rule `t {x} => 0b0 @ x`(N+9)` is only taken when the typed rule's constraint fails (smallest encoding wins)"],
}

SPELLINGS = ["dec", "hex", "bin", "oct", "neg", "expr", "const", "not", "sizedarith"]


def accepts(kind, n, v):
    if kind == "u":
        return 0 <= v < (1 << n)
    if kind == "s":
        return (-(1 << (n - 1)) <= v < (1 << (n - 1))) if n > 0 else v == 0
    if kind == "i":
        return ((-(1 << (n - 1)) if n > 0 else 0) <= v < (1 << n))
    raise ValueError(kind)


def data_accepts(n, v, size):
    """#dN: unsized values representable in N bits signed or unsigned; sized values no wider than N."""
    if size is not None:
        return size <= n
    return ((-(1 << (n - 1)) if n > 0 else 0) <= v < (1 << n))


def spell(v, how, consts):
    """Returns (text, size) of a spelling of integer v; size = declared size of a sized literal or None."""
    a = abs(v)
    if how == "dec":
        return (str(v) if v >= 0 else "-%d" % a), None
    if how == "hex":
        h = "%x" % a
        return ("0x" + h if v >= 0 else "-0x" + h), (4 * len(h) if v >= 0 else None)
    if how == "bin":
        b = bin(a)[2:]
        return ("0b" + b if v >= 0 else "-0b" + b), (len(b) if v >= 0 else None)
    if how == "oct":
        o = "%o" % a
        return ("0o" + o if v >= 0 else "-0o" + o), (3 * len(o) if v >= 0 else None)
    if how == "neg":
        return ("-(%d)" % -v if v != 0 else "-0"), None
    if how == "expr":
        return "((%d + 3) - 3)" % v if v >= 0 else "((0 - %d) + 0)" % a, None
    if how == "not":
        # bitwise complement of a sized literal: the result is an unsized integer
        return ("!0x%x" % (-v - 1) if v < 0 else "!(-0x%x)" % (v + 1)), None
    if how == "sizedarith":
        # arithmetic over sized literals: the result is an unsized integer
        return ("(0x%x + 0b0)" % v if v >= 0 else "(0b0 - 0x%x)" % a), None
    if how == "const":
        name = "c%s%d" % ("m" if v < 0 else "p", a)
        consts[name] = v
        return name, None
    raise ValueError(how)


def near_boundary(kind, n, v):
    bs = [0, (1 << n), -(1 << (n - 1)) if n > 0 else 0, (1 << (n - 1)) if n > 0 else 0, -(1 << n)]
    return any(abs(v - b) <= 4 for b in bs)


def is_known_n0(kind, n, v):
    return n == 0 and v == 0


def typed_program(kind, n, values, how, unused=False):
    consts = {}
    if unused:
        # the parameter's value is not used by the production: the range check must still apply
        lines = ["#ruledef", "{", "    t {x: %s%d} => 0b1" % (kind, n), "    t {x} => 0b00", "}"]
    else:
        lines = ["#ruledef", "{", "    t {x: %s%d} => 0b1 @ x" % (kind, n), "    t {x} => 0b0 @ x`%d" % (n + 9), "}"]
    for v in values:
        text, _ = spell(v, how, consts)
        lines.append("t " + text)
    for name, v in consts.items():
        lines.append("%s = %d" % (name, v))
    return "\n".join(lines) + "\n"


def decode_typed(n, nbits, value, count):
    """Decodes `count` instructions from the bit stream; returns list of (accepted, payload)."""
    out = []
    pos = 0
    for _ in range(count):
        if pos >= nbits:
            return None
        marker = (value >> (nbits - pos - 1)) & 1
        pos += 1
        w = n if marker else n + 9
        if pos + w > nbits:
            return None
        payload = (value >> (nbits - pos - w)) & ((1 << w) - 1) if w else 0
        pos += w
        out.append((bool(marker), payload))
    if pos != nbits:
        return None
    return out


def cell_violation(ctx, kind, n, v, how, what, job, expected, observed):
    sig = {"kind": kind, "N": n, "v": v, "what": what} if is_known_n0(kind, n, v) else \
        {"kind": kind, "N": n, "what": what, "boundary": near_boundary(kind if kind != "d" else "i", n, v)}
    ctx.violation("range-predicate", sig, job, expected, observed, note="spelling=%s v=%d" % (how, v))


def run_typed_unused(ctx, worker, kind, n, values, how):
    """Variant in which the production ignores the parameter (marker 1 = accepted, 00 = rejected)."""
    src = typed_program(kind, n, values, how, unused=True)
    job = lib.asm_job({"main.asm": src}, want=[])
    rec = worker.run(job)
    ctx.evaluated(len(values))
    if lib.abnormal(rec) or not lib.ok(rec):
        ctx.excluded += len(values)
        return
    nbits, value = lib.out_bits(rec)
    bits = lib.bits_str(nbits, value)
    pos = 0
    for v in values:
        ctx.monitor("typed-unused-parameter")
        if pos >= len(bits):
            ctx.violation("range-predicate", {"kind": kind, "N": n, "what": "undecodable"}, job, "marker stream", {"len": nbits})
            return
        acc = bits[pos] == "1"
        pos += 1 if acc else 2
        want = accepts(kind, n, v)
        if acc != want:
            sig = {"kind": kind, "N": n, "v": v, "what": "rejected-in-range"} if is_known_n0(kind, n, v) and not acc else \
                {"kind": kind, "what": "accepted-out-of-range" if acc else "rejected-in-range", "parameter_unused_by_production": True}
            ctx.violation("range-predicate", sig, job, {"accepted": want}, {"accepted": acc}, note="spelling=%s v=%d N=%d" % (how, v, n))
        elif near_boundary(kind, n, v):
            ctx.nontrivial_case(repr((kind, n, v, how, "unused")).encode())


def run_typed(ctx, worker, kind, n, values, how):
    src = typed_program(kind, n, values, how)
    job = lib.asm_job({"main.asm": src}, want=[])
    rec = worker.run(job)
    ctx.evaluated(len(values))
    if lib.abnormal(rec):
        ctx.excluded += len(values)
        return
    if not lib.ok(rec):
        # the fallback rule accepts everything, so the program as a whole must assemble
        ctx.violation("range-predicate", {"kind": kind, "N": n, "what": "batch-failed"}, job, "assembles", lib.first_messages(rec))
        return
    nbits, value = lib.out_bits(rec)
    dec = decode_typed(n, nbits, value, len(values))
    if dec is None:
        ctx.violation("range-predicate", {"kind": kind, "N": n, "what": "undecodable"}, job, "marker stream", {"len": nbits})
        return
    for v, (acc, payload) in zip(values, dec):
        want = accepts(kind, n, v)
        ctx.monitor("typed-accept-reject")
        cell = (kind, n, v, how)
        if acc != want:
            cell_violation(ctx, kind, n, v, how, "accepted-out-of-range" if acc else "rejected-in-range", job,
                           {"accepted": want}, {"accepted": acc})
            continue
        if acc:
            ctx.monitor("typed-bits")
            if payload != (v & ((1 << n) - 1)):
                cell_violation(ctx, kind, n, v, how, "wrong-bits", job, {"bits": v & ((1 << n) - 1)}, {"bits": payload})
                continue
        else:
            if payload != (v & ((1 << (n + 9)) - 1)):
                cell_violation(ctx, kind, n, v, how, "fallback-bits", job, {"bits": v & ((1 << (n + 9)) - 1)}, {"bits": payload})
                continue
        if near_boundary(kind, n, v) or not want:
            ctx.nontrivial_case(repr(cell).encode())
    ctx.count("typed-programs")


def run_typed_alone(ctx, worker, kind, n, v, how):
    consts = {}
    text, _ = spell(v, how, consts)
    src = "#ruledef\n{\n    t {x: %s%d} => 0b1 @ x\n}\nt %s\n" % (kind, n, text)
    for name, val in consts.items():
        src += "%s = %d\n" % (name, val)
    job = lib.asm_job({"main.asm": src}, want=["msgs"])
    rec = worker.run(job)
    ctx.evaluated()
    if lib.abnormal(rec):
        ctx.excluded += 1
        return
    want = accepts(kind, n, v)
    ctx.monitor("typed-reject-alone")
    if want:
        good = lib.ok(rec) and lib.out_bits(rec) == (n + 1, (1 << n) | (v & ((1 << n) - 1)))
        if not good:
            cell_violation(ctx, kind, n, v, how, "rejected-in-range" if not lib.ok(rec) else "wrong-bits", job,
                           {"accepted": True, "bits": (1 << n) | (v & ((1 << n) - 1))},
                           {"ok": lib.ok(rec), "out": rec.get("out"), "msgs": lib.first_messages(rec)})
            return
    else:
        if not lib.failed(rec):
            cell_violation(ctx, kind, n, v, how, "accepted-out-of-range", job, {"error": True, "output": None},
                           {"ok": lib.ok(rec), "out": rec.get("out")})
            return
        ctx.count("reject-message:" + ("range" if any("out of range" in m for m in lib.first_messages(rec, 5)) else "other"))
    ctx.nontrivial_case(repr((kind, n, v, how, "alone")).encode())


def run_data_batch(ctx, worker, n, cells, how):
    """cells: list of v that the predicate accepts in spelling `how`."""
    consts = {}
    texts = []
    for v in cells:
        t, _ = spell(v, how, consts)
        texts.append(t)
    src = "\n".join("#d%d %s" % (n, ", ".join(texts[i:i + 16])) for i in range(0, len(texts), 16)) + "\n"
    for name, val in consts.items():
        src += "%s = %d\n" % (name, val)
    job = lib.asm_job({"main.asm": src}, want=["msgs"])
    rec = worker.run(job)
    ctx.evaluated(len(cells))
    if lib.abnormal(rec):
        ctx.excluded += len(cells)
        return
    ctx.monitor("data-accept", len(cells))
    if not lib.ok(rec):
        if len(cells) == 1:
            cell_violation(ctx, "d", n, cells[0], how, "rejected-in-range", job, {"accepted": True}, lib.first_messages(rec))
        else:
            mid = len(cells) // 2
            run_data_batch(ctx, worker, n, cells[:mid], how)
            run_data_batch(ctx, worker, n, cells[mid:], how)
        return
    want = 0
    for v in cells:
        want = (want << n) | (v & ((1 << n) - 1))
    got = lib.out_bits(rec)
    if got != (n * len(cells), want):
        if len(cells) == 1:
            cell_violation(ctx, "d", n, cells[0], how, "wrong-bits", job, {"bits": want}, {"got": got})
        else:
            mid = len(cells) // 2
            run_data_batch(ctx, worker, n, cells[:mid], how)
            run_data_batch(ctx, worker, n, cells[mid:], how)
        return
    for v in cells:
        if near_boundary("i", n, v):
            ctx.nontrivial_case(repr(("d", n, v, how)).encode())


def run_data_alone(ctx, worker, n, v, how):
    consts = {}
    t, size = spell(v, how, consts)
    src = "#d%d %s\n" % (n, t)
    for name, val in consts.items():
        src += "%s = %d\n" % (name, val)
    job = lib.asm_job({"main.asm": src}, want=["msgs"])
    rec = worker.run(job)
    ctx.evaluated()
    if lib.abnormal(rec):
        ctx.excluded += 1
        return
    ctx.monitor("data-reject-alone")
    if not lib.failed(rec):
        cell_violation(ctx, "d", n, v, how, "accepted-out-of-range", job, {"error": True}, {"ok": lib.ok(rec), "out": rec.get("out")})
        return
    ctx.nontrivial_case(repr(("d", n, v, how, "alone")).encode())


def run_guess_shrinks(ctx, worker, kind, n, v):
    """The value is `here + K` where label `here` follows an instruction of a width-overloaded family with a forward
    reference: its address is guessed too high in the first pass (3) and settles at 2. Acceptance must be decided on the
    final value v = 2 + K alone; an intermediate guess outside the range must not reject (nor a guess inside admit)."""
    k = v - 2
    expr = "here + %d" % k if k >= 0 else "here - %d" % -k
    head = "#ruledef\n{\n    jmp {a: u8} => 0x10 @ a\n    jmp {a: u16} => 0x20 @ a\n    t {x: %s%d} => 0b1 @ x\n}\njmp far\nhere:\nfar:\n" % (kind if kind != "d" else "u", n)
    src = head + ("#d%d %s\n" % (n, expr) if kind == "d" else "t %s\n" % expr)
    job = lib.asm_job({"main.asm": src}, want=["msgs"])
    rec = worker.run(job)
    ctx.evaluated()
    if lib.abnormal(rec):
        ctx.excluded += 1
        return
    ctx.monitor("value-settles-after-a-larger-guess")
    want = data_accepts(n, v, None) if kind == "d" else accepts(kind, n, v)
    if lib.ok(rec) != want:
        sig = {"kind": kind, "N": n, "v": v, "what": "rejected-in-range"} if is_known_n0(kind, n, v) and not lib.ok(rec) else \
            {"kind": kind, "what": "accepted-out-of-range" if lib.ok(rec) else "rejected-in-range", "value_depends_on_a_label_whose_guess_shrinks": True}
        ctx.violation("range-predicate", sig, job, {"accepted": want}, {"accepted": lib.ok(rec), "msgs": lib.first_messages(rec)},
                      note="alone guess-shrinks N=%d v=%d" % (n, v))
        return
    if want:
        nbits, value = lib.out_bits(rec)
        w = n if kind == "d" else n + 1
        tail = value & ((1 << w) - 1)
        expect = (v & ((1 << n) - 1)) | ((1 << n) if kind != "d" else 0)
        if nbits != 16 + w or (value >> w) != 0x1002 or tail != expect:
            ctx.violation("range-predicate", {"kind": kind, "what": "wrong-bits", "value_depends_on_a_label_whose_guess_shrinks": True}, job,
                          {"len": 16 + w, "tail": expect}, {"len": nbits, "value": hex(value)}, note="alone guess-shrinks N=%d v=%d" % (n, v))
            return
    ctx.nontrivial_case(repr((kind, n, v, "guess-shrinks")).encode())


def run_define_literal(ctx, n, v, style):
    """The value reaches `#dN` through a command-line define (`-dV=<literal>`, real binary): it means what the same
    literal means in the source - a sign makes it an unsized number, an unsigned hex/binary literal keeps its digit width."""
    import runner
    mag = abs(v)
    lit = str(mag) if style == "dec" else "0x%x" % mag if style == "hex" else "0b" + bin(mag)[2:]
    size = None if (v < 0 or style == "dec") else (len(lit) - 2) * (4 if style == "hex" else 1)
    text = ("-" if v < 0 else "") + lit
    src = "V = 0\n#d%d V\n" % n
    argv = ["main.asm", "-q", "-p", "-f", "binstr", "-dV=" + text]
    res = runner.run_cli(ctx.cli("rel"), argv, {"main.asm": src}, cpu_s=10)
    ctx.evaluated()
    if res["signal"] is not None or res["wall_timeout"] or res["status"] not in (0, 1):
        ctx.excluded += 1
        return
    ctx.monitor("define-literal")
    want = data_accepts(n, v, size)
    ok = res["status"] == 0
    job = {"mode": "process", "argv": ["customasm"] + argv, "files": [["main.asm", src]]}
    if ok != want:
        sig = {"kind": "d", "N": n, "v": v, "what": "rejected-in-range"} if is_known_n0("d", n, v) and not ok else \
            {"kind": "d", "what": "accepted-out-of-range" if ok else "rejected-in-range", "value_from_command_line_define": True, "negative": v < 0, "spelling": style}
        ctx.violation("range-predicate", sig, job, {"accepted": want}, {"accepted": ok, "out": (res["stdout"] + res["stderr"])[-200:]},
                      note="define N=%d v=%d" % (n, v))
    elif ok and res["stdout"].strip() != format(v & ((1 << n) - 1), "0%db" % n):
        ctx.violation("range-predicate", {"kind": "d", "what": "wrong-bits", "value_from_command_line_define": True}, job,
                      {"bits": format(v & ((1 << n) - 1), "0%db" % n)}, {"bits": res["stdout"].strip()[:40]}, note="define N=%d v=%d" % (n, v))
    else:
        ctx.nontrivial_case(repr(("d", n, v, style, "define")).encode())


def shard(ctx):
    worker = ctx.worker("rel")
    full_n = 16
    dl = [(n, b + d, st) for n in range(1, 17) for b in sorted(set([0, 1 << n, -(1 << (n - 1)), 1 << (n - 1), -(1 << n)])) for d in (-1, 0, 1)
          for st in ("dec", "hex", "bin")]
    for k, (n, v, st) in enumerate(dl):
        if k % ctx.nshards == ctx.shard and not ctx.out_of_time():
            run_define_literal(ctx, n, v, st)
    # directed: values that pass through a larger guess before settling (all boundary cells, every kind)
    gs = [(kind, n, b + d) for n in range(0, 17) for kind in "usid"
          for b in sorted(set([0, 1 << n, -(1 << (n - 1)) if n else 0, (1 << (n - 1)) if n else 0, -(1 << n)])) for d in (-2, -1, 0, 1)]
    for k, (kind, n, v) in enumerate(gs):
        if k % ctx.nshards == ctx.shard and not ctx.out_of_time():
            run_guess_shrinks(ctx, worker, kind, n, v)
    # work units: (kind, N, spelling)
    units = []
    for n in range(0, 17):
        for kind in "usid":
            for how in SPELLINGS:
                units.append((kind, n, how))
    mine = [u for k, u in enumerate(units) if k % ctx.nshards == ctx.shard]
    # large N first so that shards finish at similar times
    mine.sort(key=lambda u: -u[1])
    for (kind, n, how) in mine:
        if ctx.out_of_time():
            ctx.count("grid-units-skipped")
            continue
        complete = n <= full_n
        lo, hi = -(1 << n) - 4, (1 << n) + 4
        if complete:
            values = list(range(lo, hi + 1))
        else:
            values = sorted(set(v for b in (0, 1 << n, -(1 << (n - 1)), 1 << (n - 1), -(1 << n)) for v in range(b - 4, b + 5)
                                if lo <= v <= hi))
        rng = ctx.rng(zlib.crc32(repr((kind, n, how)).encode()) & 0xffff, "sample")      # (str hashes differ per process)
        if kind != "d":
            for i in range(0, len(values), 400):
                run_typed(ctx, worker, kind, n, values[i:i + 400], how)
            if how == "dec":
                for i in range(0, len(values), 400):
                    run_typed_unused(ctx, worker, kind, n, values[i:i + 400], how)
            alone = [v for v in values if near_boundary(kind, n, v)]
            rejected = [v for v in values if not accepts(kind, n, v) and not near_boundary(kind, n, v)]
            alone += rng.sample(rejected, min(len(rejected), 6))
            for v in alone:
                run_typed_alone(ctx, worker, kind, n, v, how)
        else:
            acc, rej = [], []
            for v in values:
                _, size = spell(v, how, {})
                (acc if data_accepts(n, v, size) else rej).append(v)
            for i in range(0, len(acc), 256):
                run_data_batch(ctx, worker, n, acc[i:i + 256], how)
            near = [v for v in rej if near_boundary("i", n, v)]
            deep = [v for v in rej if not near_boundary("i", n, v)]
            if ctx.tier == "quick" and len(deep) > 40:
                deep = rng.sample(deep, 40)
            for v in near + deep:
                run_data_alone(ctx, worker, n, v, how)
        ctx.count("grid-units-complete" if complete else "grid-units-boundary-only")
        if complete:
            ctx.count("grid-cells-complete", len(values))
    # sampled wide widths
    if ctx.shard == 0 or ctx.tier == "thorough":
        rng = ctx.rng(ctx.shard, "wide")
        for _ in range(40 if ctx.tier == "quick" else 400):
            if ctx.out_of_time():
                break
            n = rng.choice([17, 24, 31, 32, 33, 48, 63, 64, 65, 100, 127, 128, 129, 200, 255, 256])
            kind = rng.choice("usid")
            b = rng.choice([0, 1 << n, -(1 << (n - 1)), 1 << (n - 1), -(1 << n)])
            v = b + rng.randint(-4, 4)
            how = rng.choice(SPELLINGS)
            ctx.monitor("wide-boundaries")
            if kind == "d":
                _, size = spell(v, how, {})
                if data_accepts(n, v, size):
                    run_data_batch(ctx, worker, n, [v], how)
                else:
                    run_data_alone(ctx, worker, n, v, how)
            else:
                run_typed_alone(ctx, worker, kind, n, v, how)
    ctx.sample({"cell": {"kind": "s", "N": 3, "v": -5, "spelling": "dec"}, "program": typed_program("s", 3, [-5, -4, 3, 4], "dec"),
                "expect": "markers 0,1,1,0 (rejected, accepted, accepted, rejected)"}, limit=1)


def finalize(tier, counters, monitors, nontrivial, evaluations):
    full_n = 16
    units_expected = (full_n + 1) * 4 * len(SPELLINGS)
    done = counters.get("grid-units-complete", 0)
    return {"exhaustive": done >= units_expected and counters.get("grid-units-skipped", 0) == 0,
            "exhaustive_scope": "all (kind,N,v,spelling) with N <= %d, v in [-2^N-4, 2^N+4]: %d of %d units completed" % (full_n, done, units_expected)}


def replay(ctx, v):
    worker = ctx.worker("rel")
    rec = worker.run(v["job"])
    exp = v["expected"]
    print("replay: ok=%s out=%s msgs=%s" % (lib.ok(rec), rec.get("out"), lib.first_messages(rec)))
    if isinstance(exp, dict) and exp.get("error") and not lib.failed(rec):
        ctx.violation(v["oracle"], v["sig"], v["job"], exp, {"ok": lib.ok(rec)})
    elif isinstance(exp, dict) and exp.get("accepted") is True and "alone" in str(v.get("note", "")) and not lib.ok(rec):
        ctx.violation(v["oracle"], v["sig"], v["job"], exp, {"ok": False})
    elif isinstance(exp, dict) and "accepted" in exp and lib.ok(rec) is False and exp["accepted"]:
        ctx.violation(v["oracle"], v["sig"], v["job"], exp, {"ok": False})
