"""C10 - assembly is a deterministic function of its inputs.

The same job is executed (a) in two long-lived recorder processes with different histories, (b) in a
fresh process, (c) on four threads of one process at once, mixed with unrelated jobs; the canonical
hash of the full observation record (bits, spans, every output format, symbols, structured and
printed diagnostics, driver output and write events) must be identical everywhere.
Thorough tier adds a Miri run (data-race / UB interpreter) of a two-thread workload.
"""
import hashlib
import json
import os
import subprocess
import time

import lib
import runner
from gen import workload
from checks.c08 import lib_digest

ALL_FORMATS = ["binary", "annotated", "annotated,base:2,group:3", "annotated,base:32,group:1", "annotatedhex", "annotatedbin",
               "binstr", "hexstr", "bindump", "hexdump", "mif", "intelhex", "intelhex,addr_unit:16", "intelhex,addr_unit:32",
               "deccomma", "hexcomma", "decspace", "hexspace", "decc", "hexc", "c", "logisim8", "logisim16", "addrspan",
               "tcgame", "tcgame,base:2,group:4", "tcgamebin", "symbols", "mesen-mlb"]

SPEC = {
    "level": "exploration",
    "technique": "differential execution monitor across processes, threads and in-process histories (full-record hash equality); Miri as race/UB detector in the thorough tier",
    "level_text": ("Exploration: every job is executed 7 times - two long-lived processes with different histories, one fresh "
                   "process, and four concurrent threads of one process mixed with unrelated jobs - and the complete "
                   "observation records must hash equal. Hash-map seeds differ per process and per map, so any iteration-order "
                   "leak into output or diagnostics shows up as a mismatch. Thorough adds Miri on a two-thread workload."),
    "level_note": ("Determinism is observed, not proved: a leak that needs a rare hash collision pattern may need more "
                   "repetitions than are run. Time and locale do not enter the library (no clock reads were found), so they "
                   "are not varied."),
    "design_ref": "DESIGN.md section 5, C10",
    "budget_s": {"quick": 60, "thorough": 1000},
    "needs": ["probe-rel"],
    "rule": ("jobs from all generators, the corpus and mutants (library level, all 29 format spellings) plus command lines "
             "through driver::drive including erroneous format strings; each executed 7 times; non-trivial = job with at "
             "least one hash-map-ordered construct (>= 2 nested symbols, >= 2 format parameters, or an error with several "
             "candidate messages) whose executions were all compared; distinct = distinct job"),
    "monitors": ["process-equality", "thread-equality", "history-equality"],
    "min_nontrivial": {"quick": 200, "thorough": 5000},
    "assumptions": ["std::collections::HashMap seeds differ between processes and maps (RandomState), which is what exposes order leaks"],
}


def canon(rec):
    r = dict(rec)
    r.pop("id", None)
    return hashlib.sha256(json.dumps(r, sort_keys=True).encode()).hexdigest()


def cli_job(rng, w):
    """driver::drive job over the same files, with a (possibly erroneous) command line."""
    fmts = ["annotated", "tcgame", "intelhex", "hexdump", "symbols", "binary", "nosuchformat"]
    f = rng.choice(fmts)
    params = []
    pool = ["base:16", "group:2", "addr_unit:8", "foo:1", "bar:2", "baz:3", "qux", "base:3", "group:0", "x:1:2"]
    for _ in range(rng.randint(0, 4)):
        params.append(rng.choice(pool))
    argv = ["customasm"] + list(w["roots"]) + ["-f", ",".join([f] + params)]
    if rng.random() < 0.5:
        argv += ["-p"]
    if rng.random() < 0.3:
        argv += ["--", "-f", rng.choice(fmts), "-o", "second.out"]
    if rng.random() < 0.3:
        argv += ["-q"]
    ndef = 0
    if rng.random() < 0.35:
        # several command-line defines (most name no constant of the program: one error each, in command-line order)
        ndef = rng.randint(2, 6)
        for nm in rng.sample(["alpha", "beta", "gamma", "delta", "k0", "k1", "x", "val", "zq.sub", "lbl0", "start", "omega"], ndef):
            argv.append(rng.choice(["-d", "--define="]) + nm + rng.choice(["", "=1", "=0x20", "=true"]))
    job = {"mode": "drive", "files": lib.files_json(w["files"]), "argv": argv, "std": w["std"],
           "want": ["msgs", "printed", "symbols", "spans"]}
    return job, len([p for p in params if p.split(":")[0] not in ("base", "group", "addr_unit")]) + ndef


def bucket_program(rng):
    """Rules that one instruction can match although the matcher files them under different literal prefixes (a mnemonic
    with a glued sub-rule suffix `ld{s: size}` next to the literal spelling `ld.b`, a rule that starts with a parameter
    next to one that starts with a literal), used by instructions that end in a diagnostic listing every candidate
    (all out of range, or two of equal size)."""
    mn = rng.choice(["ld", "mov", "add", "st"])
    sufs = rng.sample([".b", ".w", ".l", ".q"], rng.randint(2, 3))
    lines = ["#subruledef size", "{"] + ["    %s => 0x%02x" % (sf, k) for k, sf in enumerate(sufs)] + ["}"]
    lines += ["#subruledef reg", "{", "    r0 => 0x0", "    r1 => 0x1", "}"]
    lines += ["#ruledef", "{",
              "    %s{s: size} {v: u16} => 0x10 @ s @ v" % mn,
              "    %s%s {v: u8} => 0x20 @ 0x%s @ v" % (mn, sufs[0], "0000" if rng.random() < 0.5 else "00"),
              "    %s%s {v: s8} => 0x30 @ 0x0000 @ v" % (mn, sufs[0]),
              "    {r: reg} gets {v: u8} => 0x40 @ r @ v",
              "    r0 gets {v: u4} => 0x5 @ v",
              "}"]
    if rng.random() < 0.3:
        # a directive body with several unknown fields: one diagnostic per field, in source order
        bad = rng.sample(["length", "origin", "pad", "algn", "fil", "outpt", "sise", "adr"], rng.randint(2, 5))
        fields = ["#addr 0", "#size 0x10", "#outp 0"] + ["#%s %d" % (b, k) for k, b in enumerate(bad)]
        rng.shuffle(fields)
        return "#bankdef prog\n{\n" + "\n".join("    " + f for f in fields) + "\n}\n#d8 1\n"
    body = []
    for _ in range(rng.randint(1, 4)):
        body.append(rng.choice(["%s%s 0x12345" % (mn, sufs[0]), "%s%s 5" % (mn, sufs[0]), "%s%s -1" % (mn, sufs[0]), "%s%s 300" % (mn, sufs[1]),
                                "r0 gets 999", "r0 gets 3", "r1 gets 256", "%s%s 7" % (mn, sufs[-1])]))
    return "\n".join(lines + body) + "\n"


def with_sibling_files(rng, w):
    """The same program plus 2-6 included files of identical shape (every file declares its first symbol at byte
    offset 0, the next at the same later offset, ...): anything keyed on a position within a file ties across files."""
    root = w["roots"][0]
    files = dict(w["files"])
    text = files.get(root)
    if not isinstance(text, str):
        return w
    n = rng.randint(2, 6)
    names = rng.sample(["uart", "gpio", "tmr0", "spi0", "adc0", "dma0", "rtc0", "i2c0"], n)
    shape = rng.choice(["%s_base = %d\n%s_data = %s_base + 1\n.sub = 3\n", "%s_base = %d\n#const %s_ctl = %s_base * 2\n",
                        "%s_base = %d\n%s_end:\n.x = %s_base\n"])
    inc = []
    for k, nm in enumerate(names):
        fname = "zz_%s.asm" % nm
        if fname in files:
            return w
        files[fname] = shape % (nm, 16 + k, nm, nm)
        inc.append('#include "%s"' % fname)
    files[root] = text + ("" if text.endswith("\n") else "\n") + "\n".join(inc) + "\n"
    w2 = dict(w)
    w2["files"] = files
    w2["tag"] = w["tag"] + "+siblings"
    return w2


def nontrivial_marker(w, rec, nparams):
    if nparams >= 2:
        return True
    syms = [s for s in (rec.get("syms") or []) if s]
    if sum(1 for s in syms if s["depth"] >= 1) >= 2:
        return True
    if len(rec.get("msgs") or []) >= 1 and any(len(m.get("inner", [])) >= 2 for m in rec["msgs"]):
        return True
    return len(syms) >= 3


def shard(ctx):
    a = ctx.worker("rel")
    b = runner.Worker(ctx.binaries["probe-rel"])
    i = ctx.shard
    try:
        while not ctx.out_of_time():
            rng = ctx.rng(i)
            i += ctx.nshards
            w = workload.draw(rng, kinds=("isa", "casc", "corpus", "mut", "isamut", "macro", "ifs"), weights=(3, 3, 3, 3, 1, 4, 1))
            if rng.random() < 0.3:
                w = with_sibling_files(rng, w)
            if rng.random() < 0.08:
                w = {"kind": "bucket", "files": {"main.asm": bucket_program(rng)}, "roots": ["main.asm"], "std": False, "tag": "bucket"}
            nparams = 0
            if rng.random() < 0.3:
                job, nparams = cli_job(rng, w)
                ctx.count("level:driver")
            else:
                job = workload.job_of(w, want=["symbols", "spans", "msgs", "printed", "banks"], formats=ALL_FORMATS,
                                      opts={"iters": rng.choice([10, 10, 3, 1])})
                ctx.count("level:library")
            # history for b: a few unrelated jobs first
            for _ in range(rng.randint(0, 2)):
                w2 = workload.draw(rng, kinds=("isa", "corpus", "mut"))
                b.run(workload.job_of(w2, want=["symbols"]))
            ra = a.run(job)
            rb = b.run(job)
            fresh = runner.Worker(ctx.binaries["probe-rel"])
            try:
                rf = fresh.run(job)
            finally:
                fresh.close()
            others = [workload.job_of(workload.draw(rng, kinds=("isa", "mut")), want=["symbols"]) for _ in range(2)]
            tjob = dict(job)
            tjob["threads"] = 4
            tjob["with"] = others
            rt = a.run(tjob)
            ctx.evaluated(7)
            if any(lib.abnormal(r) for r in (ra, rb, rf, rt)):
                # crashes are C03's; but a crash in only some executions is itself non-determinism
                kinds = [r.get("outcome") for r in (ra, rb, rf)]
                if len(set(kinds)) > 1:
                    ctx.violation("process-equality", {"kind": "abnormal-in-some-executions"}, job, "same outcome", kinds)
                ctx.excluded += 1
                continue
            ha, hb, hf = canon(ra), canon(rb), canon(rf)
            ctx.monitor("process-equality")
            ctx.monitor("history-equality")
            if not (ha == hb == hf):
                ctx.violation("process-equality", {"kind": "record-differs", "where": diff_keys(ra, rb, rf),
                                                   "unknown_params": min(nparams, 2)}, job,
                              "identical records", {"diff": diff_detail(ra, rb, rf)})
            ctx.monitor("thread-equality")
            trecs = rt.get("records", [])[:4]
            ths = [canon({k: v for k, v in r.items() if k != "stdout"}) for r in trecs]
            base = canon({k: v for k, v in ra.items() if k != "stdout"})
            if job["mode"] != "drive" and any(h != base for h in ths):
                ctx.violation("thread-equality", {"kind": "thread-record-differs"}, job, "identical records",
                              {"diff": diff_detail(ra, *trecs[:2])})
            if ha == hb == hf:
                if nontrivial_marker(w, ra, nparams):
                    ctx.nontrivial_case(lib_digest(w, nparams))
                    ctx.sample({"tag": w["tag"], "mode": job["mode"], "argv": job.get("argv"), "record_sha256": ha,
                                "executions": 7, "ok": lib.ok(ra)}, limit=2)
                ctx.count("result:" + ("ok" if lib.ok(ra) or ra.get("drive_ok") else "fail"))
    finally:
        b.close()
    if ctx.tier == "thorough" and ctx.shard == 0:
        miri(ctx)


def diff_keys(*recs):
    keys = set()
    for r in recs[1:]:
        for k in set(recs[0]) | set(r):
            if k != "id" and recs[0].get(k) != r.get(k):
                keys.add(k)
    return ",".join(sorted(keys))


def diff_detail(*recs):
    out = {}
    for r in recs[1:]:
        for k in set(recs[0]) | set(r):
            if k != "id" and recs[0].get(k) != r.get(k):
                out[k] = [json.dumps(recs[0].get(k))[:300], json.dumps(r.get(k))[:300]]
    return out


def miri(ctx):
    """Thorough tier: data-race / UB interpreter on a two-thread assembly workload."""
    env = dict(runner.ENV_BASE)
    env["MIRIFLAGS"] = "-Zmiri-disable-isolation"
    env["RUSTFLAGS"] = "--cfg " + runner.GUARD
    env["CARGO_TARGET_DIR"] = os.path.join(runner.TARGET, "miri")
    t0 = time.time()
    p = subprocess.run(["cargo", "+nightly", "miri", "run", "--offline", "--bin", "miri-threads"],
                       cwd=runner.HARNESS, env=env, stdout=subprocess.PIPE, stderr=subprocess.STDOUT, timeout=1500)
    out = p.stdout.decode("utf8", "replace")
    ctx.monitor("miri-two-threads")
    ctx.count("miri-wall-s", int(time.time() - t0))
    if "Undefined Behavior" in out or "data race" in out.lower():
        ctx.violation("miri", {"kind": "miri-report"}, {"cmd": "cargo +nightly miri run --bin miri-threads"}, "no report", out[-1500:])
    elif p.returncode != 0:
        ctx.count("miri-inconclusive")
        ctx.inconclusive += 1
    else:
        ctx.count("miri-clean")
        ctx.sample({"miri": "two threads x 5 programs, no UB / data race report", "tail": out[-300:]}, limit=9)


def replay(ctx, v):
    job = v["job"]
    hashes = []
    details = []
    for _ in range(6):
        w = runner.Worker(ctx.binaries["probe-rel"])
        try:
            r = w.run(job)
        finally:
            w.close()
        hashes.append(canon(r))
        details.append(r)
    if len(set(hashes)) > 1:
        ctx.violation(v["oracle"], v["sig"], job, "identical records", {"distinct_hashes": len(set(hashes)),
                                                                       "diff": diff_detail(*details[:3])})
