"""C09 - the iteration budget decides whether a program assembles, never to what.

Differential monitor over budgets {1,2,3,4,5,10,11,30} plus the pass-trace specification (U5) checked
on the hook H3 event log of every run.
"""
import lib
import runner
from gen import workload
from checks.c08 import lib_digest

SPEC = {
    "level": "exploration",
    "technique": "differential execution monitor over iteration budgets + online trace-specification check of the resolver's pass log (hook H3)",
    "level_text": ("Exploration: each program is assembled under budgets {1,2,3,4,5,10,11,30}; if budget N succeeds every larger "
                   "budget must succeed with identical bits and symbols, the reported pass count must not exceed the budget, and "
                   "the recorded pass sequence (first/last flags, resolved/unresolved outcome of every pass) must follow the "
                   "specification of the iteration loop, including the confirming pass."),
    "level_note": ("Oracle is monotonic agreement between runs and a trace specification derived from the documented loop; "
                   "requires hook H3 (pass log). Programs that need more than 30 passes are only seen failing."),
    "design_ref": "DESIGN.md sections 4 (U5) and 5 (C09)",
    "budget_s": {"quick": 55, "thorough": 1100},
    "needs": ["probe-rel", "cli-rel"],
    "rule": ("jobs from static ISAs, cascading (value-dependent) ISAs, the test corpus (asm blocks, assertions) and mutants, each "
             "run under 8 budgets; non-trivial = program whose success flips inside the swept budgets or that needs >= 3 passes "
             "to converge; distinct = distinct file set"),
    "monitors": ["budget-monotonicity", "iterations-within-budget", "pass-trace-spec", "unique-layout-value", "budget-on-the-command-line"],
    "min_nontrivial": {"quick": 150, "thorough": 5000},
    "assumptions": ["hook H3 reports every top-level pass (begin/end events)"],
}

BUDGETS = [1, 2, 3, 4, 5, 10, 11, 30]


def passes_of(trace):
    """Top-level passes from the H3 event log: list of (index, first, last, state) with state
    'R' | 'U' | 'E' (began but did not end: the pass returned an error)."""
    out = []
    open_ = None
    for lvl, idx, first, last, st in trace["events"]:
        if lvl != 0:
            continue
        if st == 0:
            if open_ is not None:
                out.append(open_ + ("E",))
            open_ = (idx, first, last)
        else:
            if open_ is None:
                out.append((idx, first, last, "?"))
            else:
                out.append(open_ + ("R" if st == 1 else "U",))
                open_ = None
    if open_ is not None:
        out.append(open_ + ("E",))
    return out


def check_trace(budget, rec):
    """Returns None if the pass trace satisfies the specification, else a description."""
    tr = rec.get("trace")
    if tr is None or tr["total"] > len(tr["events"]):
        return None   # truncated log: not judged
    ps = passes_of(tr)
    if not ps:
        return None   # failed before resolution started
    # indices 1..n, first only on pass 1
    for n, (idx, first, last, st) in enumerate(ps, start=1):
        if idx != n:
            return "pass numbering %s" % (ps,)
        if first != (n == 1):
            return "first-flag on pass %d: %s" % (n, ps)
        if st == "?":
            return "end without begin"
    states = [p[3] for p in ps]
    # position of the first R within the loop
    k = None
    for n, st in enumerate(states, start=1):
        if st == "R":
            k = n
            break
    success = lib.ok(rec)
    n = len(ps)
    if k is None:
        # never resolved: loop passes 1..m all U except possibly a trailing E; last flag only on pass == budget
        for i, (idx, first, last, st) in enumerate(ps, start=1):
            if last != (i == budget):
                return "last-flag on pass %d (budget %d): %s" % (i, budget, ps)
        if success:
            return "success without a resolved pass: %s" % (ps,)
        if n > budget:
            return "more passes than the budget: %s" % (ps,)
        if states[-1] == "U" and n != budget:
            return "stopped unresolved before the budget was used: %s" % (ps,)
        return None
    if k > budget:
        return "resolved after the budget: %s" % (ps,)
    for i in range(1, k + 1):
        if ps[i - 1][2] != (i == budget):
            return "last-flag on pass %d (budget %d): %s" % (i, budget, ps)
    if any(s != "U" for s in states[:k - 1]):
        return "non-U pass before first R: %s" % (ps,)
    if k == budget:
        if n != k:
            return "extra pass after resolving on the last allowed pass: %s" % (ps,)
        if success and rec.get("iters") != k:
            return "iterations_taken %s != %d" % (rec.get("iters"), k)
        return None
    # confirming pass required
    if n != k + 1:
        return "confirming pass missing or extra passes: %s" % (ps,)
    idx, first, last, st = ps[k]
    if not last or first:
        return "confirming pass flags: %s" % (ps,)
    if success:
        if st != "R":
            return "success although the confirming pass was not resolved: %s" % (ps,)
        if rec.get("iters") != k:
            return "iterations_taken %s != %d" % (rec.get("iters"), k)
    elif st == "R" and rec.get("iters") is None and not rec.get("has_output"):
        # resolution succeeded, a later phase (bank overlap / output) failed: fine
        return None
    return None


def shard(ctx):
    worker = ctx.worker("rel")
    i = ctx.shard
    while not ctx.out_of_time():
        rng = ctx.rng(i)
        i += ctx.nshards
        w = workload.draw(rng, kinds=("isa", "casc", "corpus", "mut", "isamut", "macro", "deep", "chain", "ifs"), weights=(2, 5, 2, 2, 1, 3, 4, 2, 1))
        ctx.count("kind:" + w["kind"])
        results = []
        bad = False
        for b in BUDGETS:
            job = workload.job_of(w, want=["symbols", "trace"], opts={"iters": b})
            rec = worker.run(job)
            ctx.evaluated()
            if lib.abnormal(rec):
                bad = True
                break
            results.append((b, job, rec))
        if bad:
            ctx.excluded += 1
            continue
        # trace spec + iterations bound on every run
        for b, job, rec in results:
            ctx.monitor("pass-trace-spec")
            why = check_trace(b, rec)
            if why:
                ctx.violation("pass-trace", {"kind": "trace-spec", "what": why.split(":")[0][:60]}, job,
                              "trace follows the loop specification", why[:600])
            if lib.ok(rec):
                ctx.monitor("iterations-within-budget")
                it = rec.get("iters")
                if it is None or it > b or it < 1:
                    ctx.violation("iterations", {"kind": "iterations-exceed-budget"}, job, {"<=": b}, {"iters": it})
                ps = passes_of(rec["trace"]) if rec.get("trace") else []
                ctx.count("trace-shape:" + "".join(p[3] for p in ps)[:12])
        # padding chains have exactly one consistent layout, computed by the generator: whatever budget succeeds must give it
        if w.get("expected_hex") is not None:
            for b, job, rec in results:
                if lib.ok(rec):
                    ctx.monitor("unique-layout-value")
                    if rec["out"]["hex"] != w["expected_hex"]:
                        ctx.violation("budget-monotonic", {"kind": "output-is-not-the-unique-consistent-layout"}, job,
                                      {"bits": w["expected_hex"][:80]}, {"budget": b, "bits": rec["out"]["hex"][:80]})
                        break
        # the same budget given on the command line, in the first of two output groups (real binary)
        if w.get("expected_hex") is not None and (i // ctx.nshards) % 4 == 0:
            b, job, rec = rng.choice([r for r in results if r[0] in (2, 3, 4, 5, 11)])
            spell = rng.choice(["--iters=%d", "-t%d"]) % b
            argv = ["main.asm", "-q", spell, "-f", "hexstr", "-p", "--", "-f", "symbols", "-o", "syms.txt"]
            if rng.random() < 0.3:
                argv = ["main.asm", "-q", "-f", "hexstr", "-p", "--", "-f", "symbols", "-o", "syms.txt", spell]
            res = runner.run_cli(ctx.cli("rel"), argv, dict(w["files"]), cpu_s=10)
            ctx.evaluated()
            ctx.monitor("budget-on-the-command-line")
            want_ok = lib.ok(rec)
            got_ok = res["status"] == 0
            if res["signal"] is None and not res["wall_timeout"]:
                if got_ok != want_ok or (got_ok and res["stdout"].strip() != rec["out"]["hex"]):
                    ctx.violation("budget-monotonic", {"kind": "command-line-budget-not-honoured", "library_ok": want_ok, "binary_ok": got_ok},
                                  {"mode": "process", "argv": ["customasm"] + argv, "files": lib.files_json(w["files"])},
                                  {"ok": want_ok, "hex": (rec.get("out") or {}).get("hex")}, {"status": res["status"], "stdout": res["stdout"].strip()[:80]})
        # monotonicity
        ctx.monitor("budget-monotonicity")
        first_ok = None
        flips = False
        for b, job, rec in results:
            k = lib.result_key(rec)
            if k[0] == "ok":
                if first_ok is None:
                    first_ok = (b, k)
                    if b > 1:
                        flips = True
                elif k != first_ok[1]:
                    ctx.violation("budget-monotonic", {"kind": "different-output-at-larger-budget"}, job,
                                  {"budget": first_ok[0], "bits": (first_ok[1][2] or "")[:80]},
                                  {"budget": b, "bits": (k[2] or "")[:80]})
            elif first_ok is not None:
                ctx.violation("budget-monotonic", {"kind": "fails-at-larger-budget"}, job,
                              {"succeeds at": first_ok[0]}, {"fails at": b})
        if first_ok is not None:
            need = results[[b for b, _, _ in results].index(first_ok[0])][2].get("iters") or 0
            if flips or need >= 3:
                ctx.nontrivial_case(lib_digest(w, 0))
                ctx.count("first-success-budget:%d" % first_ok[0])
                ctx.sample({"tag": w["tag"], "first_success_at_budget": first_ok[0], "iterations_taken": need,
                            "passes": [list(p) for p in passes_of(results[-1][2]["trace"])]}, limit=2)


def replay(ctx, v):
    if v["job"].get("mode") == "process":
        job = v["job"]
        files = {f[0]: (f[1] if isinstance(f[1], str) else bytes.fromhex(f[1]["h"])) for f in job["files"]}
        res = runner.run_cli(ctx.cli("rel"), job["argv"][1:], files, cpu_s=10)
        exp = v["expected"]
        print("replay: status=%s stdout=%s" % (res["status"], res["stdout"].strip()[:80]))
        if (res["status"] == 0) != bool(exp.get("ok")) or (exp.get("ok") and res["stdout"].strip() != exp.get("hex")):
            ctx.violation(v["oracle"], v["sig"], job, exp, {"status": res["status"]})
        return
    worker = ctx.worker("rel")
    base = dict(v["job"])
    first_ok = None
    for b in BUDGETS:
        j = dict(base)
        o = dict(j.get("opts") or {})
        o["iters"] = b
        j["opts"] = o
        rec = worker.run(j)
        why = check_trace(b, rec)
        if why:
            ctx.violation("pass-trace", {"kind": "trace-spec", "what": why.split(":")[0][:60]}, j, "spec", why[:400])
        k = lib.result_key(rec)
        if k[0] == "ok":
            if rec.get("iters", 0) > b:
                ctx.violation("iterations", {"kind": "iterations-exceed-budget"}, j, {"<=": b}, {"iters": rec.get("iters")})
            if first_ok is None:
                first_ok = (b, k)
            elif k != first_ok[1]:
                ctx.violation("budget-monotonic", {"kind": "different-output-at-larger-budget"}, j, first_ok[0], b)
        elif first_ok is not None:
            ctx.violation("budget-monotonic", {"kind": "fails-at-larger-budget"}, j, first_ok[0], b)
