"""C19 - resource limits are diagnosed, not crashed into.

Resource monitor on the real binary: directed families parameterised by magnitude (nesting depth of
every bracket / operator / directive form, recursion cycles through functions, asm blocks, constants,
sub-rules and includes, operand magnitudes 2^k in every numeric position) are run under
RLIMIT_CPU, RLIMIT_AS and an 8 MiB stack. A run must end with status 0 or 1; status 1 must carry an
error diagnostic; status 0 is accepted only if the output equals the family's exact model value (a
silent wrap-around is a violation, not a pass). Death by signal, allocation abort, CPU-limit kill or
a panic are violations. The overflow-checked twin (chk profile) turns silent wraps into panics.
"""
import re

import lib
import runner
from gen import limits as GL

SPEC = {
    "level": "exploration",
    "technique": "resource monitor on the real binary under setrlimit (CPU seconds, address space, stack): exit status / signal / stderr / output classified per (family, magnitude); overflow-checked build as sanitizer-style twin",
    "level_text": ("Exploration over directed magnitude sweeps: ~47 families x 4-20 magnitudes x 2 build profiles (quick), "
                   "dense sweeps to 2^69 / depth 10^5 (thorough). The monitor observes the process, not the library: exit "
                   "status, terminating signal, CPU seconds (load-independent budget), and the produced bytes, and accepts a "
                   "successful run only if the output equals a closed-form model value for that family member."),
    "level_note": ("'Bounded' means the stated budgets (CPU 20 s, 4 GiB, 8 MiB stack); a slow algorithm "
                   "that stays below them is not flagged. A wall-clock watchdog firing is inconclusive, never a violation. "
                   "Stack-overflow thresholds move by a few units between runs; known findings store the measured threshold "
                   "and only a failure below half of it counts as new."),
    "design_ref": "DESIGN.md section 5, C19",
    "budget_s": {"quick": 110, "thorough": 1500},
    "needs": ["cli-rel", "cli-chk"],
    "owns_abnormal": True,
    "rule": ("(family, magnitude, profile) triples from gen/limits.py; non-trivial = run at or beyond a documented limit "
             "(depth >= 50, 2^k >= 2^31, cycle) that ended with a diagnostic or the exact model value, or any run that "
             "reproduced a listed finding; distinct = distinct triple"),
    "monitors": ["exit-status", "diagnostic-on-failure", "model-value-on-success", "cpu-budget", "memory-budget"],
    "min_nontrivial": {"quick": 200, "thorough": 800},
    "assumptions": ["RLIMIT_CPU / RLIMIT_AS deliver SIGXCPU / allocation failure deterministically"],
}

# measured on the unchanged tree (release build, 8 MiB stack): depth at which the family first dies of stack overflow
STACK_THRESHOLDS = {"if-nesting": 1684, "elif-chain": 12304, "binary-operator-chain": 3759, "concat-chain": 3759,
                    "include-chain": 18750, "subrule-left-recursion": 1}

ARGV = ["main.asm", "-f", "hexstr", "-p", "-q"]


def pattern_expect(family, k):
    """Closed-form output for the layout families whose expectation depends on k (hex string) or None."""
    n = 1 << k
    if family == "res-then-data" and n <= (1 << 16):
        return "01" + "00" * n + "02"
    if family == "align" and n <= (1 << 20):
        if n % 8 == 0:
            return "01" + "00" * (n // 8 - 1) + "02"
        return None
    if family == "addr-then-data" and n <= (1 << 16):
        return ("01" + "00" * (n - 1) + "02") if n >= 1 else None
    if family == "bankdef-outp" and n <= (1 << 20) and n % 8 == 0:
        return "00" * (n // 8) + "33"
    if family == "bankdef-size-fill" and n <= (1 << 16):
        return "32" + "00" * (n - 1)
    if family == "bankdef-labelalign" and n <= (1 << 20) and n % 8 == 0 and n > 0:
        return "01" + "00" * (n // 8 - 1) + "02"
    if family == "many-data-elements":
        return "".join("%02x" % (i & 0xff) for i in range(k))
    if family == "data-width-suffix" and n <= (1 << 16) and n % 4 == 0:
        return format(1, "0%dx" % (n // 4)) + "77"
    return None


def classify(res):
    """(mode, detail) of a finished process."""
    if res["wall_timeout"]:
        return "wall-timeout", ""
    sig = res["signal"]
    err = res["stderr"]
    if sig is not None:
        if sig == 24 or (sig == 9 and res["cpu_s"] > 4):
            return "cpu-limit", "%.1fs" % res["cpu_s"]
        if "overflowed its stack" in err:
            return "stack-overflow", ""
        if "memory allocation" in err:
            return "allocation-abort", re.sub(r"\d+", "N", err[-80:])
        return "signal-%d" % sig, err[-120:]
    st = res["status"]
    if st == 101:
        m = re.search(r"panicked at ([^:\s]+):\d+:\d+:\s*\n?(.*)", err)
        return "panic", (m.group(1).replace(lib.REPO + "/", "") + ": " + re.sub(r"\d+", "N", m.group(2))[:50]) if m else err[-80:]
    if st == 134:
        return "abort", err[-80:]
    if st == 0:
        return "ok", ""
    if st == 1:
        return ("error" if "error:" in err else "exit-1-without-diagnostic"), ""
    return "exit-%s" % st, err[-80:]


def shard(ctx):
    tier = ctx.tier
    cpu = 20
    work = []
    for fam, (fn, mq, mt) in GL.FAMILIES.items():
        for k in (mq if tier == "quick" else mt):
            for profile in ("rel", "chk"):
                work.append((fam, k, profile))
    # interleave so that expensive families are spread over the shards
    work.sort(key=lambda w: (w[1], w[0], w[2]))
    mine = [w for i, w in enumerate(work) if i % ctx.nshards == ctx.shard]
    # cheap first, so that a budget cut loses the expensive tail
    for (fam, k, profile) in mine:
        if ctx.out_of_time():
            ctx.count("skipped-out-of-budget")
            continue
        fn = GL.FAMILIES[fam][0]
        try:
            files, expect = fn(k)
        except (OverflowError, MemoryError, ValueError):
            ctx.count("generator-declined")
            continue
        res = runner.run_cli(ctx.cli(profile), ARGV, files, cpu_s=cpu, as_gib=4, wall_s=150, stack_mb=8)
        ctx.evaluated()
        mode, detail = classify(res)
        ctx.monitor("exit-status")
        ctx.monitor("cpu-budget")
        ctx.monitor("memory-budget")
        ctx.count("cpu:" + ("<0.1s" if res["cpu_s"] < 0.1 else "<1s" if res["cpu_s"] < 1 else "<5s" if res["cpu_s"] < 5 else "<20s" if res["cpu_s"] < 20 else ">=20s"))
        ctx.count("peak-rss:" + ("<50MB" if res["maxrss_kb"] < 50e3 else "<500MB" if res["maxrss_kb"] < 500e3 else "<4GB"))
        job = {"mode": "process", "family": fam, "k": k, "profile": profile, "argv": ["customasm"] + ARGV,
               "files": "regenerate with gen/limits.py FAMILIES[%r][0](%d)" % (fam, k)}
        thr = STACK_THRESHOLDS.get(fam)
        base_sig = {"family": fam, "mode": mode, "profile": profile}
        if mode == "wall-timeout":
            ctx.inconclusive += 1
            continue
        at_limit = (k >= 50 and "nesting" in fam or "chain" in fam and k >= 50) or ("cycle" in fam or "recursion" in fam) or \
            (fam in ("shift-left", "shift-right", "slice-high-bound", "slice-both-bounds", "short-slice-size", "data-width-suffix",
                     "type-width-suffix", "res-then-data", "res-only", "align", "addr-then-data", "incbin-range") and k >= 31) or \
            (fam.startswith("bankdef") and k >= 31)
        if mode == "ok":
            ctx.monitor("model-value-on-success")
            out = res["stdout"].strip()
            want = expect[1] if expect[0] in ("value", "either") else None
            if want is None and expect[0] != "error":
                want = pattern_expect(fam, k)
            if expect[0] == "error":
                ctx.violation("resource", {**base_sig, "mode": "accepted-although-it-cannot-be"}, job, "error diagnostic", {"stdout": out[:80]})
                continue
            if want is None:
                ctx.count("accepted-unmodelled:" + fam)
                continue
            if out != want:
                ctx.violation("resource", {**base_sig, "mode": "silent-wrong-result"}, job, {"hexstr": want[:80], "len": len(want)},
                              {"hexstr": out[:80], "len": len(out)})
                continue
            ctx.count("ok:" + fam)
            if at_limit:
                ctx.nontrivial_case(repr((fam, k, profile)).encode())
        elif mode == "error":
            ctx.monitor("diagnostic-on-failure")
            if expect[0] == "value":
                ctx.violation("resource", {**base_sig, "mode": "rejected-supported-magnitude"}, job, expect[1], res["stderr"][:200])
                continue
            ctx.count("diagnosed:" + fam)
            if at_limit:
                ctx.nontrivial_case(repr((fam, k, profile)).encode())
                ctx.sample({"family": fam, "k": k, "profile": profile, "outcome": "error diagnostic",
                            "first": (re.search(r"error: ([^\n]*)", res["stderr"]) or [None, ""])[1][:80], "cpu_s": round(res["cpu_s"], 2)}, limit=3)
        else:
            sig = dict(base_sig)
            if mode == "stack-overflow":
                sig["below_half_of_measured_threshold"] = bool(thr) and k < thr / 2
            if mode == "panic":
                sig["what"] = detail[:70]
            ctx.violation("resource", sig, job, "exit status 0 with the model value, or 1 with an error diagnostic",
                          {"mode": mode, "detail": detail, "cpu_s": round(res["cpu_s"], 2), "maxrss_kb": res["maxrss_kb"], "k": k})
            ctx.nontrivial_case(repr((fam, k, profile)).encode())


def replay(ctx, v):
    job = v["job"]
    fn = GL.FAMILIES[job["family"]][0]
    files, expect = fn(job["k"])
    res = runner.run_cli(ctx.cli(job["profile"]), ARGV, files, cpu_s=20, as_gib=4, wall_s=150)
    mode, detail = classify(res)
    print("replay: family=%s k=%s profile=%s -> %s %s (cpu %.1fs)" % (job["family"], job["k"], job["profile"], mode, detail, res["cpu_s"]))
    if mode not in ("ok", "error"):
        ctx.violation(v["oracle"], v["sig"], job, v["expected"], {"mode": mode, "detail": detail})
    elif mode == "ok" and v["sig"].get("mode") in ("silent-wrong-result", "accepted-although-it-cannot-be"):
        want = expect[1] if len(expect) > 1 else None
        if want is None:
            want = pattern_expect(job["family"], job["k"])
        if expect[0] == "error" or (want is not None and res["stdout"].strip() != want):
            ctx.violation(v["oracle"], v["sig"], job, v["expected"], res["stdout"][:80])
