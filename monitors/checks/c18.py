"""C18 - the command line does what the usage text says.

Model monitor: command lines generated from the grammar documented in usage_help.md (format names,
parameters with defaults, <= 4 output groups, -o/-p, global options anywhere, input names with and
without extensions / directories) are executed through driver::drive with a recording file server
and compared with a model of the documented behaviour: which invocations are rejected before
assembling, and for accepted ones exactly one write (given or derived name) or one print per group,
whose content equals format_output of that format on the same assembly. The one-group grid over all
format names and documented parameter values is enumerated completely; the real binary is used for
exit status, --color, -h and -v, and every fourth accepted invocation is repeated through it in a scratch
directory whose output names already hold longer stale content (a re-assembly), comparing the files on disk.
"""
import re
import zlib

import lib
import runner
from gen import cli as C

SPEC = {
    "level": "exploration",
    "technique": "reference-model monitor of the documented command-line grammar over driver::drive with a write-event log (complete one-group grid + random multi-group), plus real-binary runs for exit status, colour, help, version and on-disk file contents over pre-existing stale outputs",
    "level_text": ("Exhaustive for one output group: every documented format name x every documented parameter value x "
                   "boundary and invalid values x (-o | -p | neither) x input-name shapes; exploration for 2-4 groups with "
                   "global options (quiet, iteration budget, defines, colour, debug switches, help, version) placed in any "
                   "group. Every accepted invocation's write events (order, names, bytes) and printed text are compared with "
                   "the model and with format_output of the same assembly obtained through the library API."),
    "level_note": ("Only spellings printed in the usage text are generated (DESIGN section 8). The content oracle is "
                   "customasm's own format_output on the same assembly (C11/C12 judge the formats themselves)."),
    "design_ref": "DESIGN.md section 5, C18",
    "budget_s": {"quick": 60, "thorough": 900},
    "needs": ["probe-rel", "cli-rel"],
    "rule": ("grid cells (format string, output mode, input name) for one group - complete - plus random command lines "
             "with 2-4 groups; non-trivial = invocation with >= 1 format parameter or >= 2 groups or a rejected near-miss, "
             "judged against the model; distinct = distinct argv"),
    "monitors": ["reject-before-assembly", "write-events", "content-equals-format-output", "printed-output", "process-exit-and-colour", "real-filesystem", "define-meaning", "define-names-a-constant", "colour-off"],
    "min_nontrivial": {"quick": 1500, "thorough": 20000},
    "assumptions": ["driver::drive is the same code the binary runs (hook H2 only makes it reachable from the library)"],
}

PROGRAM = """#ruledef
{
    ld {x: u8} => 0x10 @ x
    jmp {a: u8} => 0x20 @ a
    jmp {a: u16} => 0x21 @ a
}
x = 1
k0 = 2
val = 3
.b = 4
entry = end - 2
start:
    ld x
    ld k0
    jmp end
    #d8 val, val.b
.loop:
    jmp start
    #d8 entry
end:
    #d16 0x1234
"""

DEFAULTS = {"x": 1, "k0": 2, "val": 3, "val.b": 4, "entry": 9}


def expected_program_bits(defs):
    """What PROGRAM must assemble to under the given command-line defines (independent of customasm): None when a
    define makes the program invalid or is outside this small model (non-integer, out of range, unknown name)."""
    vals = dict(DEFAULTS)
    seen = set()
    for d in defs:
        if d["name"] in seen:
            continue                      # the first definition of a name wins
        seen.add(d["name"])
        if d["name"] not in vals or "int" not in d:
            return None
        t = d["int"].replace("_", "")
        neg = t.startswith("-")
        t = t.lstrip("-")
        v = int(t[1:], 16) if t.startswith("$") else int(t[1:], 2) if t.startswith("%") else int(t, 0) if t[:2] in ("0x", "0b", "0o") else int(t)
        vals[d["name"]] = -v if neg else v
    if not (0 <= vals["x"] <= 255 and 0 <= vals["k0"] <= 255):
        return None
    if not all(-128 <= vals[k] <= 255 for k in ("val", "val.b", "entry")):
        return None
    b = [0x10, vals["x"], 0x10, vals["k0"], 0x20, 11, vals["val"] & 255, vals["val.b"] & 255, 0x20, 0, vals["entry"] & 255, 0x12, 0x34]
    return bytes(b).hex()

INPUT_NAMES = ["main.asm", "prog.txt", "dir/sub.asm", "noext", "a.b.c", "prog.bin", "x.mlb", ".hidden", "dir.d/file"]


def define_to_job(name, val):
    """G_cli define spelling -> (job define dict or None if the documented grammar rejects it)."""
    if name == "":
        return None
    if val == "":
        return {"name": name, "bool": True}
    v = val[1:]
    if v == "true":
        return {"name": name, "bool": True}
    if v == "false":
        return {"name": name, "bool": False}
    # a radix prefix needs at least one digit after it (underscores are only separators)
    m = re.fullmatch(r"-?(0x_*[0-9a-fA-F][0-9a-fA-F_]*|0b_*[01][01_]*|0o_*[0-7][0-7_]*|\$_*[0-9a-fA-F][0-9a-fA-F_]*|%_*[01][01_]*|[0-9][0-9_]*)", v)
    if not m:
        return None
    return {"name": name, "int": v}


def as_bytes(d):
    if d is None:
        return None
    if "h" in d:
        return bytes.fromhex(d["h"])
    return d.get("t", "").encode("utf8")


def one_group_grid():
    """Complete single-group grid: (format string, expectation)."""
    cells = []
    for name, (ext, params) in C.FORMATS.items():
        cells.append((name, ("ok", name, {p: d for p, (d, _) in params.items()})))
        value_sets = {}
        for pname, (default, spec) in params.items():
            if isinstance(spec, list):
                vals = [(str(v), True) for v in spec] + [(str(v), False) for v in (0, 1, 3, 5, 6, 7, 9, 15, 17, 24, 31, 33, 63, 65, 127, 129, 256) if v not in spec]
            else:
                vals = [(str(v), True) for v in (1, 2, 3, 4, 7, 8, 9, 16, 64)] + [("0", False)]
            vals += [("-1", False), ("", False), ("x", False), ("1.5", False), ("99999999999999999999999", False), ("0x10", False)]
            value_sets[pname] = vals
        for pname, vals in value_sets.items():
            for text, ok_ in vals:
                full = {p: d for p, (d, _) in params.items()}
                if ok_:
                    full[pname] = int(text)
                cells.append(("%s,%s:%s" % (name, pname, text), ("ok", name, full) if ok_ else ("err",)))
        if len(value_sets) == 2:
            (p1, v1), (p2, v2) = list(value_sets.items())
            for t1, o1 in v1[:6]:
                for t2, o2 in v2[:6]:
                    full = {p: d for p, (d, _) in params.items()}
                    if o1:
                        full[p1] = int(t1)
                    if o2:
                        full[p2] = int(t2)
                    for order in ((p1, t1, p2, t2), (p2, t2, p1, t1)):
                        cells.append(("%s,%s:%s,%s:%s" % ((name,) + order), ("ok", name, dict(full)) if o1 and o2 else ("err",)))
        for bad in C.BAD_PARAM_NAMES:
            cells.append(("%s,%s:1" % (name, bad), ("err",)))
        if not params:
            cells.append((name + ",base:16", ("err",)))
            cells.append((name + ",group:2", ("err",)))
        cells.append((name + ",", ("err",)))
    for bad in C.BAD_FORMAT_NAMES:
        cells.append((bad, ("err",)))
    return cells


def build_from_cell(rng, cell, mode, input_name):
    fmt, exp = cell
    argv = ["customasm", input_name]
    argv += ["-f", fmt] if rng.random() < 0.5 else ["--format=" + fmt]
    g = {"format": fmt, "fmt_expect": exp, "printout": False, "output": None}
    if mode == "o":
        argv += ["-o", "given.out"] if rng.random() < 0.5 else ["--output=given.out"]
        g["output"] = "given.out"
    elif mode == "p":
        argv += [rng.choice(["-p", "--print"])]
        g["printout"] = True
    quiet = rng.random() < 0.7
    if quiet:
        argv.append("-q")
    model = {"quiet": quiet, "iters": 10, "iters_ok": True, "color_ok": True, "defines": [], "help": False, "version": False,
             "opt_static": True, "opt_matcher": True, "debug_iters": False, "groups": [g], "inputs": [input_name]}
    return argv, model


def judge(ctx, worker, argv, model, files):
    job = {"mode": "drive", "files": lib.files_json(files), "argv": argv, "want": ["msgs"]}
    rec = worker.run(job)
    ctx.evaluated()
    if lib.abnormal(rec):
        ctx.excluded += 1
        return None
    # defines the documented grammar rejects
    defs = []
    bad_define = False
    # defines in command-line order (the first definition of a name wins)
    ordered = []
    for a in argv[1:]:
        body = None
        if a.startswith("--define="):
            body = a[len("--define="):]
        elif a.startswith("-d") and not a.startswith("--"):
            body = a[2:]
        if body is not None:
            name, eq, val = body.partition("=")
            ordered.append((name, eq + val))
    for (name, val) in ordered:
        d = define_to_job(name, val)
        if d is None:
            bad_define = True
        else:
            defs.append(d)
    pred = C.predict(model)
    writes = rec.get("writes") or []
    reads = [h for h in rec.get("handles") or []]
    stdout = rec.get("stdout", "")
    if pred[0] in ("error-before-assembly", "error-no-input") or bad_define:
        ctx.monitor("reject-before-assembly")
        if rec.get("drive_ok"):
            ctx.violation("cli-model", {"kind": "invalid-command-line-accepted", "why": pred[0] if not bad_define else "bad-define"}, job,
                          "error before assembling", {"writes": [w["name"] for w in writes], "stdout": stdout[:200]})
            return False
        if reads or writes:
            ctx.violation("cli-model", {"kind": "assembled-before-rejecting-the-command-line"}, job, "no file access",
                          {"reads": reads[:3], "writes": [w["name"] for w in writes]})
            return False
        if rec.get("nerrors", 0) < 1:
            ctx.violation("cli-model", {"kind": "rejected-without-diagnostic"}, job, "error diagnostic", rec.get("nmsgs"))
            return False
        ctx.count("rejected-as-documented")
        return True
    if pred[0] in ("help", "version"):
        ctx.monitor("reject-before-assembly")
        if not rec.get("drive_ok") or writes or reads:
            ctx.violation("cli-model", {"kind": pred[0] + "-not-honoured"}, job, pred[0], {"ok": rec.get("drive_ok"), "writes": len(writes)})
            return False
        marker = "Command-Line Usage" if pred[0] == "help" else "github.com/hlorenzi/customasm"
        if marker not in stdout:
            ctx.violation("cli-model", {"kind": pred[0] + "-text-missing"}, job, marker, stdout[:200])
            return False
        ctx.count(pred[0] + "-ok")
        return True
    plan = pred[1]
    # what the same assembly produces through the library API
    fmts = sorted(set(p[-1] for p in plan))
    ref_job = lib.asm_job(lib.files_json(files), roots=model["inputs"], want=[], formats=fmts,
                          opts={"iters": model["iters"], "opt_static": model["opt_static"], "opt_matcher": model["opt_matcher"], "defines": defs})
    ref = worker.run(ref_job)
    ctx.evaluated()
    if lib.abnormal(ref):
        ctx.excluded += 1
        return None
    if files.get(model["inputs"][0]) == PROGRAM and len(files) == 1:
        # independent of the library's verdict: a define that names no constant of PROGRAM (unknown name or a label) is an
        # error wherever it stands among the defines
        stray = [d["name"] for d in defs if d["name"] not in DEFAULTS]
        if stray:
            ctx.monitor("define-names-a-constant")
            if lib.ok(ref):
                ctx.violation("cli-model", {"kind": "define-without-constant-accepted", "last_define_is_stray": defs[-1]["name"] not in DEFAULTS}, job,
                              {"error": "unused define", "names": stray}, {"hex": (ref.get("out") or {}).get("hex"), "defines": defs})
                return False
    if not lib.ok(ref):
        # assembly itself fails (e.g. define of a missing constant, budget too small): driver must fail, nothing written
        if rec.get("drive_ok") or any(w["ok"] for w in writes):
            ctx.violation("cli-model", {"kind": "driver-succeeds-where-assembly-fails"}, job, "failure", {"writes": [w["name"] for w in writes]})
            return False
        ctx.count("assembly-failed-consistently")
        return True
    want_hex = expected_program_bits(defs) if files.get(model["inputs"][0]) == PROGRAM and len(files) == 1 else None
    if want_hex is not None:
        ctx.monitor("define-meaning")
        if (ref.get("out") or {}).get("hex") != want_hex:
            ctx.violation("cli-model", {"kind": "defines-not-honoured", "static_optimisation": model["opt_static"]}, job,
                          {"hex": want_hex, "defines": defs}, {"hex": (ref.get("out") or {}).get("hex")})
            return False
    if not rec.get("drive_ok"):
        ctx.violation("cli-model", {"kind": "valid-command-line-rejected", "first": (lib.first_messages(rec, 1) or ["?"])[0][:50]}, job,
                      {"plan": plan}, lib.first_messages(rec))
        return False
    ctx.monitor("write-events")
    want_writes = [(p[1], p[2]) for p in plan if p[0] == "write"]
    got_names = [w["name"] for w in writes]
    if got_names != [n for n, _ in want_writes]:
        ctx.violation("cli-model", {"kind": "write-events-differ", "groups": len(plan)}, job, {"writes": [n for n, _ in want_writes]}, {"writes": got_names})
        return False
    ctx.monitor("content-equals-format-output")
    for w, (name, fmt) in zip(writes, want_writes):
        refd = ref["formats"].get(fmt)
        if refd is None or "panic" in refd or "parse_err" in refd:
            ctx.violation("cli-model", {"kind": "documented-format-not-available", "format": fmt.split(",")[0]}, job, fmt, refd)
            return False
        if as_bytes(w["data"]) != as_bytes(refd):
            ctx.violation("cli-model", {"kind": "written-content-differs", "format": fmt.split(",")[0]}, job,
                          {"format": fmt, "data": str(refd)[:200]}, {"file": name, "data": str(w["data"])[:200]})
            return False
    ctx.monitor("printed-output")
    pos = 0
    for p in plan:
        if p[0] != "print":
            continue
        refd = ref["formats"].get(p[1]) or {}
        text = as_bytes(refd).decode("utf8", "replace") if ("t" in refd or "h" in refd) else None
        k = stdout.find(text if text is not None else "\0", pos)
        if text is None or k < 0:
            ctx.violation("cli-model", {"kind": "printed-output-missing", "format": p[1].split(",")[0]}, job, {"format": p[1]}, {"stdout": stdout[:300]})
            return False
        pos = k + len(text)
    if model["quiet"] and not model["debug_iters"]:
        leftovers = stdout
        for p in plan:
            if p[0] == "print":
                t = (as_bytes(ref["formats"].get(p[1])) or b"").decode("utf8", "replace")
                leftovers = leftovers.replace(t, "", 1)
        if leftovers.strip():
            ctx.violation("cli-model", {"kind": "quiet-not-honoured"}, job, "only requested output on stdout", leftovers[:200])
            return False
    elif not model["quiet"]:
        if "assembling `" not in stdout or "resolved in" not in stdout:
            ctx.violation("cli-model", {"kind": "progress-report-missing"}, job, "progress lines", stdout[:200])
            return False
    ctx.count("accepted-as-documented")
    if zlib.crc32(repr(argv).encode()) % REAL_FS_EVERY == 0:
        return real_fs_case(ctx, job, argv, files, plan, ref)
    return True


STALE = b"STALE-CONTENT-OF-AN-EARLIER-RUN\n" * 512      # longer than any output of PROGRAM
REAL_FS_EVERY = 4


def real_fs_case(ctx, job, argv, files, plan, ref):
    """The same accepted invocation through the real binary and the real file system: the output names already
    exist with longer, stale content (a re-assembly), a bystander file sits next to them. Afterwards every planned
    name holds exactly the bytes of its format (the last group naming it wins), nothing else changed."""
    ctx.monitor("real-filesystem")
    want = {}
    for p in plan:
        if p[0] == "write":
            want[p[1]] = as_bytes(ref["formats"].get(p[2]))
    disk = dict(files)
    pre = zlib.crc32(repr(argv).encode()) % 3 != 0
    for name in want:
        if pre:
            disk[name] = STALE
    disk["bystander.keep"] = b"keep me\n"
    dirs = sorted(set(n.rsplit("/", 1)[0] for n in want if "/" in n))
    res = runner.run_cli(ctx.cli("rel"), argv[1:], disk, cpu_s=10, extra_dirs=dirs)
    ctx.evaluated()
    pjob = {"mode": "process", "argv": argv, "files": lib.files_json(files), "stale_outputs": pre}
    if res["status"] != 0:
        ctx.violation("cli-process", {"kind": "real-binary-fails-where-driver-succeeds"}, pjob, {"status": 0},
                      {"status": res["status"], "signal": res["signal"], "out": (res["stdout"] + res["stderr"])[-300:]})
        return False
    changed = {k: v for k, v in res["created"].items()}
    for name, data in want.items():
        got = changed.pop(name, None)
        if got is None and pre:
            ctx.violation("cli-process", {"kind": "output-file-not-written"}, pjob, {"file": name}, {"changed": sorted(res["created"])})
            return False
        if got is None:
            ctx.violation("cli-process", {"kind": "output-file-not-written"}, pjob, {"file": name}, {"changed": sorted(res["created"])})
            return False
        if got != data:
            ctx.violation("cli-process", {"kind": "file-content-differs-from-format-output", "stale_outputs": pre,
                                          "longer": len(got) > len(data)}, pjob,
                          {"file": name, "len": len(data), "head": data[:80].hex()}, {"len": len(got), "head": got[:80].hex(), "tail": got[-40:].hex()})
            return False
    if changed:
        ctx.violation("cli-process", {"kind": "unplanned-file-changed"}, pjob, {"files": sorted(want)}, {"extra": sorted(changed)})
        return False
    ctx.count("real-filesystem-ok")
    return True


def process_cases(ctx, rng):
    cli = ctx.cli("rel")
    files = {"main.asm": PROGRAM, "bad.asm": "#d8 undefined_symbol\n",
             # diagnostics with nested notes (every style the printer has): duplicate declaration, ambiguous match, failed asm block
             "dup.asm": "x = 1\nx = 2\n",
             "amb.asm": "#ruledef\n{\n    ld {a: u8} => 0x10 @ a\n    ld {b: i8} => 0x20 @ b\n    m {a} => asm { ld {a} }\n}\nld 5\nm 999\n"}
    for argv, want_status, must, must_not in [
        (["-h"], 0, "Command-Line Usage", None),
        (["--help"], 0, "Command-Line Usage", None),
        (["-v"], 0, "customasm", None),
        (["--version"], 0, "customasm", None),
        (["main.asm", "-p", "-q", "-h"], 0, "Command-Line Usage", None),
        (["bad.asm", "-q"], 1, "error", None),
        (["bad.asm", "-q", "--color=off"], 1, "error", "\x1b["),
        (["bad.asm", "-q", "--color=on"], 1, "\x1b[", None),
        (["main.asm", "-q", "-f", "hexstr", "-p"], 0, "1001", None),
        (["dup.asm", "-q", "--color=off"], 1, "note:", "\x1b["),
        (["dup.asm", "--color=off"], 1, "note:", "\x1b["),
        (["amb.asm", "-q", "--color=off"], 1, "note:", "\x1b["),
        (["amb.asm", "-q", "-f", "hexstr", "--", "--color=off", "-f", "binary"], 1, "note:", "\x1b["),
        (["dup.asm", "-q", "--color=on"], 1, "\x1b[", None),
        (["--help", "--color=off"], 0, "Command-Line Usage", "\x1b["),
        (["--color=off", "-h"], 0, "Command-Line Usage", "\x1b["),
        (["main.asm", "-p", "--color=off"], 0, "assembling", "\x1b["),
        (["main.asm", "-q", "-f", "nosuch"], 1, "unknown format", None),
        ([], 1, "no input", None),
    ]:
        res = runner.run_cli(cli, argv, files, cpu_s=10)
        ctx.evaluated()
        ctx.monitor("process-exit-and-colour")
        text = res["stdout"] + res["stderr"]
        bad = res["status"] != want_status or (must and must not in text) or (must_not and must_not in text)
        job = {"mode": "process", "argv": ["customasm"] + argv, "files": lib.files_json(files)}
        if bad:
            ctx.violation("cli-process", {"kind": "process-behaviour", "argv": " ".join(argv)[:40]}, job,
                          {"status": want_status, "contains": must, "not": must_not}, {"status": res["status"], "out": text[:300]})
        else:
            ctx.nontrivial_case(repr(argv).encode())


def colour_cases(ctx, rng, n):
    """`--color=off` (anywhere on the command line) over programs that fail in many different ways - mutated corpus
    programs produce every diagnostic shape (nested notes, candidate lists, asm-block traces): no escape sequence may
    reach stdout or stderr; with `--color=on` a failing run does use them."""
    from gen import workload
    for k in range(n):
        if ctx.out_of_time():
            return
        w = workload.draw(rng, kinds=("mut", "isamut", "corpus"), weights=(6, 2, 1))
        files = {name: (t if isinstance(t, (str, bytes)) else str(t)) for name, t in w["files"].items()}
        argv = list(w["roots"]) + rng.choice([["-q"], [], ["-f", "hexstr", "-p"], ["-q", "-f", "annotated", "-p"]])
        argv.insert(rng.randint(0, len(argv)) if "-f" not in argv else 0, "--color=off")
        if rng.random() < 0.3:
            argv += ["--", "-f", "symbols", "-p"]
        res = runner.run_cli(ctx.cli("rel"), argv, files, cpu_s=10)
        ctx.evaluated()
        if res["signal"] is not None or res["wall_timeout"] or res["status"] not in (0, 1):
            ctx.excluded += 1
            continue
        ctx.monitor("colour-off")
        text = res["stdout"] + res["stderr"]
        if "\x1b[" in text:
            m = re.search(r"\x1b\[[0-9;]*m([^\x1b\n]{0,20})", text)
            ctx.violation("cli-process", {"kind": "colour-off-not-honoured", "before": (m.group(1).strip().split(" ")[0] if m else "?")[:12]},
                          {"mode": "process", "argv": ["customasm"] + argv, "files": lib.files_json(files)}, {"status": res["status"], "not": "\x1b["},
                          {"status": res["status"], "out": text[:300]})
        elif res["status"] == 1:
            ctx.count("colour-off-failing-runs")
            if "note:" in text:
                ctx.count("colour-off-runs-with-notes")
                ctx.nontrivial_case(("colour" + repr(argv) + w["tag"]).encode())


def shard(ctx):
    worker = ctx.worker("rel")
    cells = one_group_grid()
    work = []
    for ci, cell in enumerate(cells):
        for mode in ("o", "p", "n"):
            work.append((ci, mode))
    mine = [w for k, w in enumerate(work) if k % ctx.nshards == ctx.shard]
    done = 0
    for (ci, mode) in mine:
        if ctx.out_of_time():
            ctx.count("grid-cells-skipped")
            continue
        rng = ctx.rng(ci, mode)
        name = rng.choice(INPUT_NAMES) if rng.random() < 0.5 else "main.asm"
        argv, model = build_from_cell(rng, cells[ci], mode, name)
        r = judge(ctx, worker, argv, model, {name: PROGRAM})
        done += 1
        if r:
            ctx.nontrivial_case(repr(argv).encode())
    ctx.count("grid-cells-done", done)
    if ctx.shard == 0:
        process_cases(ctx, ctx.rng(0, "proc"))
    colour_cases(ctx, ctx.rng(ctx.shard, "colour"), 25 if ctx.tier == "quick" else 600)
    i = ctx.shard
    while not ctx.out_of_time():
        rng = ctx.rng(i, "multi")
        i += ctx.nshards
        names = [rng.choice(INPUT_NAMES)]
        argv, model = C.gen_argv(rng, names, max_groups=4, validity=rng.random() < 0.8)
        r = judge(ctx, worker, argv, model, {names[0]: PROGRAM})
        if r and (len(model["groups"]) >= 2 or any("," in (g["format"] or "") for g in model["groups"])):
            ctx.nontrivial_case(repr(argv).encode())
            ctx.sample({"argv": argv, "predicted": list(C.predict(model))[:2]}, limit=2)


def finalize(tier, counters, monitors, nontrivial, evaluations):
    total = len(one_group_grid()) * 3
    return {"exhaustive": counters.get("grid-cells-skipped", 0) == 0 and counters.get("grid-cells-done", 0) >= total,
            "exhaustive_scope": "one-group grid: %d of %d (format string x output mode) cells" % (counters.get("grid-cells-done", 0), total)}


def replay(ctx, v):
    job = v["job"]
    if job.get("mode") == "process":
        res = runner.run_cli(ctx.cli("rel"), job["argv"][1:], {f[0]: f[1] for f in job["files"]}, cpu_s=10)
        print("replay: status=%s out=%s" % (res["status"], (res["stdout"] + res["stderr"])[:300]))
        exp = v["expected"]
        if res["status"] != exp["status"]:
            ctx.violation(v["oracle"], v["sig"], job, exp, res["status"])
        return
    worker = ctx.worker("rel")
    rec = worker.run(job)
    print("replay: drive_ok=%s writes=%s msgs=%s" % (rec.get("drive_ok"), [w["name"] for w in rec.get("writes", [])], lib.first_messages(rec)))
    k = v["sig"].get("kind", "")
    if k in ("invalid-command-line-accepted", "driver-succeeds-where-assembly-fails") and rec.get("drive_ok"):
        ctx.violation(v["oracle"], v["sig"], job, v["expected"], "accepted")
    elif k == "valid-command-line-rejected" and not rec.get("drive_ok"):
        ctx.violation(v["oracle"], v["sig"], job, v["expected"], lib.first_messages(rec))
    elif k == "write-events-differ" and [w["name"] for w in rec.get("writes", [])] != v["expected"]["writes"]:
        ctx.violation(v["oracle"], v["sig"], job, v["expected"], [w["name"] for w in rec.get("writes", [])])
