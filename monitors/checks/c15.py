"""C15 - symbols resolve lexically and independently of declaration order.

Model monitor: generated declaration trees (labels and constants to depth 4, repeated local names
under different parents, constants defined through chains of other constants in any order) with
references from every position at every dot level and dotted path are assembled by the real library
and compared with an independent scoping model (the reference assembler's scope rules). Metamorphic
part: moving an address-free constant (with its nested children) to another scope-preserving
position must change neither bits nor symbol values.
"""
import lib
from gen import isa as G
from gen.isa import num
from model import asm as A
from checks import c01

SPEC = {
    "level": "exploration",
    "technique": "reference-model monitor for lexical symbol resolution + metamorphic monitor (moving address-free constants) on generated declaration trees",
    "level_text": ("Exploration: tens of thousands of generated symbol trees with references at every dot level from every "
                   "position, compared with an independent scoping model (which declaration a reference binds to, forward = "
                   "backward, duplicate / skipped level / undeclared => error), plus a metamorphic relation over constant "
                   "placement; every reference is emitted as data so the output bits show the binding."),
    "level_note": ("Constants open scopes like labels (the repository's own tests require it, DESIGN section 8), so only "
                   "scope-preserving moves are generated. Trusts the scope rules in model/asm.py (declare_all / resolve_name)."),
    "design_ref": "DESIGN.md section 5, C15",
    "budget_s": {"quick": 50, "thorough": 900},
    "needs": ["probe-rel"],
    "rule": ("declaration trees: <= 25 declarations, depth <= 4, names drawn from a pool of 4 per level so that locals repeat "
             "under different parents; <= 40 references (relative with k dots, dotted paths, absolute); constants chained in "
             "any order; fault cases (duplicate, skipped level, undeclared, builtin with a dotted tail); non-trivial = tree "
             "with >= 2 equal local names under different parents and >= 3 references that assembled and agreed, or a "
             "confirmed rejection; distinct = distinct source"),
    "monitors": ["scoping-model", "constant-move-equality", "constant-chain-order"],
    "min_nontrivial": {"quick": 1000, "thorough": 20000},
    "assumptions": ["references are observed through #d16 of the referenced value (low 16 bits) and through the symbol table"],
}

# nested levels may carry names that are builtins when written bare (`pc`): with leading dots or inside a dotted path
# they are ordinary symbols
NAMES = [["g0", "g1", "g2", "g3", "tab"], ["x", "y", "loop", "end", "pc"], ["x", "k", "m", "pc"], ["x", "q"]]


def gen_tree(rng, with_banks=False):
    """Items: labels/constants with levels, data, references. Returns prog (for model/asm.py)."""
    items = []
    decls = []          # (full path list, kind)
    ctx = []
    n = rng.randint(3, 22)
    for _ in range(n):
        r = rng.random()
        if r < 0.55 or not decls:
            depth = len(ctx)
            level = rng.choice([0] + list(range(0, min(depth, 3) + 1)) + [min(depth, 3)])
            name = rng.choice(NAMES[level])
            path = ctx[:level] + [name]
            if any(p == path for p, _ in decls):
                continue
            kind = "label" if rng.random() < 0.55 else "const"
            decls.append((path, kind))
            ctx = path
            if kind == "label":
                items.append(("label", name, level))
            else:
                items.append(("const", name, level, None))     # expression filled in later
        elif r < 0.8:
            items.append(("data", 8, [num(rng.randint(0, 255)) for _ in range(rng.randint(1, 3))]))
        else:
            items.append(("ref", None))
    # trailing references
    for _ in range(rng.randint(1, 6)):
        items.append(("ref", None))
    # fill in references and constant expressions
    out = []
    ctx = []
    all_paths = [p for p, _ in decls]
    const_paths = [p for p, k in decls if k == "const"]
    # assign a dependency order to constants: each may depend on constants later in a random permutation (acyclic)
    perm = list(const_paths)
    rng.shuffle(perm)
    rank = {tuple(p): i for i, p in enumerate(perm)}

    def ref_to(target, from_ctx):
        """A reference expression naming `target` from context `from_ctx` (relative when possible)."""
        choices = [("var", 0, list(target))]
        for k in range(1, min(len(from_ctx), len(target) - 1 + 1) + 1):
            if k <= len(target) - 1 + 0 and from_ctx[:k] == target[:k] and len(target) > k:
                choices.append(("var", k, list(target[k:])))
        return rng.choice(choices)

    # what every constant is defined from: another constant (acyclic by rank), a label (its value is then an address:
    # known only after layout, and such a constant is not free to move), or a literal
    label_paths = [p for p, k in decls if k == "label"]
    plan = {}
    for p in const_paths:
        me = tuple(p)
        deps = [q for q in const_paths if rank[tuple(q)] > rank[me]]
        r = rng.random()
        if deps and r < 0.55:
            plan[me] = ("const", rng.choice(deps))
        elif label_paths and r < 0.7:
            plan[me] = ("label", rng.choice(label_paths))
        else:
            plan[me] = ("lit", rng.randint(0, 300))
    addr_dep = set(me for me, (k, _) in plan.items() if k == "label")
    grew = True
    while grew:
        grew = False
        for me, (k, d) in plan.items():
            if k == "const" and tuple(d) in addr_dep and me not in addr_dep:
                addr_dep.add(me)
                grew = True
    for it in items:
        if it[0] in ("label", "const"):
            level = it[2]
            ctx = ctx[:level] + [it[1]]
        if it[0] == "const":
            me = tuple(ctx)
            k, d = plan[me]
            if k == "const":
                e = ("bin", rng.choice(["+", "*", "-", "^"]), ref_to(d, ctx), num(rng.randint(1, 9)))
            elif k == "label":
                e = ("bin", "+", ref_to(d, ctx), num(rng.randint(0, 9)))
            else:
                e = num(d)
            out.append(("const", it[1], it[2], e))
        elif it[0] == "ref":
            if not all_paths:
                continue
            t = rng.choice(all_paths)
            e = ref_to(t, ctx)
            if rng.random() < 0.4:
                # the same reference as an instruction operand (the matcher keeps its own notion of the enclosing scope)
                out.append(("instr", [("t", "ref", "lit"), ("e", e)]))
            else:
                out.append(("data", 16, [("sshort", e, num(16))]))
        else:
            out.append(it)
    isa = {"rules": [{"pat": [("lit", "nop")], "prod": ("int", 0xea, 8, "0xea"), "size": 8, "name": "r0"},
                     {"pat": [("lit", "ref"), ("param", "v", None)], "prod": ("sshort", ("var", 0, ["v"]), num(16)), "size": 16, "name": "r1"}],
           "subs": {}, "comma_space": True}
    banks = []
    if rng.random() < 0.2:
        banks = [{"name": "main", "unit": 8, "addr": rng.choice([0, 0x100, 0x8000]), "size": None, "outp": 0, "fill": False,
                  "labelalign": rng.choice([16, 32, 64])}]
        out.insert(0, ("bankdef", 0))
    return {"isa": isa, "banks": banks, "items": out, "fault": None, "addr_consts": set(me[-1] for me in addr_dep)}


def inject_fault(rng, prog):
    items = prog["items"]
    kind = rng.choice(["duplicate", "skip-level", "undeclared", "undeclared-nested", "builtin-tail", "missing-component", "missing-component"])
    decl_idx = [i for i, it in enumerate(items) if it[0] in ("label", "const")]
    if kind == "missing-component" and decl_idx:
        # a dotted path whose non-final component does not exist although the rest of the path would resolve from
        # the global scope (or from the enclosing scope): <existing prefix>.zz_missing.<declared path>
        paths, cur = [], []
        for it in items:
            if it[0] in ("label", "const"):
                cur = cur[:it[2]] + [it[1]]
                paths.append(list(cur))
        tail = rng.choice(paths)
        head = rng.choice(paths)[:rng.randint(0, 2)]
        i = rng.randint(0, len(items))
        here = []
        for it in items[:i]:
            if it[0] in ("label", "const"):
                here = here[:it[2]] + [it[1]]
        level = rng.randint(0, len(here)) if rng.random() < 0.4 else 0
        path = (head if level == 0 else []) + [rng.choice(["zz_missing", "nope", "q"])] + tail
        if level == 0 and not head and rng.random() < 0.5:
            path = [tail[0], "zz_missing"] + tail
        items.insert(i, ("data", 16, [("sshort", ("var", level, path), num(16))]))
        return kind
    if kind == "duplicate" and decl_idx:
        i = rng.choice(decl_idx)
        it = items[i]
        # same name at the same level in the same scope: right after the original and its subtree is not
        # needed - directly after is always the same scope
        dup = ("label", it[1], it[2]) if rng.random() < 0.5 else ("const", it[1], it[2], num(1))
        items.insert(i + 1, dup)
    elif kind == "skip-level":
        items.insert(0, ("label", "x", rng.choice([1, 2])))
    elif kind == "undeclared":
        items.insert(rng.randint(0, len(items)), ("data", 16, [("sshort", ("var", 0, ["nosuch_%d" % rng.randint(0, 9)]), num(16))]))
    elif kind == "undeclared-nested" and decl_idx:
        i = rng.choice(decl_idx)
        below = [it[1] for it in items[i + 1:i + 12] if it[0] in ("label", "const") and it[2] == items[i][2] + 1]
        name = "pc" if rng.random() < 0.4 and "pc" not in below else "zz_missing"
        if name == "pc":
            # only where no child of that name exists anywhere under this parent
            path, cur = None, []
            parents_with_pc = set()
            for it in items:
                if it[0] in ("label", "const"):
                    cur = cur[:it[2]] + [it[1]]
                    if it[1] == "pc":
                        parents_with_pc.add(tuple(cur[:-1]))
            cur = []
            for it in items[:i + 1]:
                if it[0] in ("label", "const"):
                    cur = cur[:it[2]] + [it[1]]
            if tuple(cur) in parents_with_pc:
                name = "zz_missing"
        items.insert(i + 1, ("data", 16, [("sshort", ("var", items[i][2] + 1, [name]), num(16))]))
    elif kind == "builtin-tail":
        items.insert(rng.randint(0, len(items)), ("data", 16, [("sshort", ("var", 0, [rng.choice(["pc", "$"]), "nothing"]), num(16))]))
    else:
        return None
    return kind


def move_constant(rng, prog):
    """Returns a copy of prog with one address-free global constant block moved to another global
    boundary, or None."""
    items = prog["items"]
    blocks = []
    i = 0
    while i < len(items):
        it = items[i]
        if it[0] == "const" and it[2] == 0 and it[1] not in prog.get("addr_consts", ()):
            j = i + 1
            while j < len(items) and not (items[j][0] in ("label", "const") and items[j][2] == 0):
                if items[j][0] not in ("const",):
                    break
                j += 1
            # block = the constant and directly following nested constants (all of them free of addresses)
            if not any(items[k][1] in prog.get("addr_consts", ()) for k in range(i, j)):
                blocks.append((i, j))
        i += 1
    if not blocks:
        return None
    a, b = rng.choice(blocks)
    block = items[a:b]
    rest = items[:a] + items[b:]
    # global boundaries in rest: before a level-0 declaration, or at the very end
    bounds = [k for k, it in enumerate(rest) if it[0] in ("label", "const") and it[2] == 0] + [len(rest)]
    # moving changes the context of references/data that follow the block until the next global: only
    # allowed if what followed the block (up to the next level-0 declaration) has no relative references
    # and no nested declarations
    tail = items[b:]
    for it in tail:
        if it[0] in ("label", "const") and it[2] == 0:
            break
        if it[0] in ("label", "const") or "('var', 1" in repr(it) or "('var', 2" in repr(it) or "('var', 3" in repr(it):
            return None
    # the same must hold at the destination: items between the destination and the next level-0
    # declaration would be re-parented
    k = rng.choice(bounds)
    for it in rest[k:]:
        if it[0] in ("label", "const") and it[2] == 0:
            break
        if it[0] in ("label", "const") or "('var', 1" in repr(it) or "('var', 2" in repr(it) or "('var', 3" in repr(it):
            return None
    new_items = rest[:k] + block + rest[k:]
    if new_items == items:
        return None
    p2 = dict(prog)
    p2["items"] = new_items
    return p2


def repeated_locals(prog):
    seen = {}
    ctx = []
    for it in prog["items"]:
        if it[0] in ("label", "const"):
            ctx = ctx[:it[2]] + [it[1]]
            if it[2] >= 1:
                seen.setdefault(it[1], set()).add(tuple(ctx[:-1]))
    return sum(1 for v in seen.values() if len(v) >= 2)


def chain_case(ctx, rng, worker):
    """Constants defined through a chain of other constants, declared in forward, reverse or shuffled order, feeding
    data, an instruction, a #bankdef attribute and an #if condition: order must not matter."""
    n = rng.choice([2, 3, 4, 6, 9, 10, 11, 12, 16, 20, 25])
    base = rng.randint(1, 9)
    decl = ["ch0 = %d" % base] + ["ch%d = ch%d + %d" % (i, i - 1, i % 3 + 1) for i in range(1, n)]
    val = [base]
    for i in range(1, n):
        val.append(val[-1] + i % 3 + 1)
    order = rng.choice(["forward", "reverse", "shuffled"])
    lines = list(decl)
    if order == "reverse":
        lines.reverse()
    elif order == "shuffled":
        rng.shuffle(lines)
    use = rng.choice(["data", "bankdef", "if", "instr"])
    top = val[n - 1]
    if use == "data":
        head, tail = ["#d16 ch%d`16" % (n - 1)], []
        want = "%04x" % (top & 0xffff)
    elif use == "instr":
        head, tail = ["#ruledef\n{\n    ld {x} => 0x55 @ x`16\n}", "ld ch%d" % (n - 1)], []
        want = "55%04x" % (top & 0xffff)
    elif use == "bankdef":
        head = ["#bankdef b\n{\n    #addr ch%d\n    #size 8\n    #outp 0\n}" % (n - 1), "here:", "#d16 here`16"]
        tail = []
        want = "%04x" % (top & 0xffff)
    else:
        head = ["#if ch%d == %d\n{\n    #d8 0xaa\n}\n#else\n{\n    #d8 0xbb\n}" % (n - 1, top)]
        tail = []
        want = "aa"
    place = rng.choice(["after", "before"])
    body = (lines + head) if place == "before" else (head + lines)
    src = "\n".join(body + tail) + "\n"
    job = lib.asm_job({"main.asm": src}, want=["msgs"])
    rec = worker.run(job)
    ctx.evaluated()
    ctx.monitor("constant-chain-order")
    if lib.abnormal(rec):
        ctx.excluded += 1
        return
    if not lib.ok(rec) or rec["out"]["hex"] != want:
        ctx.violation("constant-chain", {"kind": "declaration-order-matters", "order": order, "use": use, "used_before_declared": place == "after"},
                      job, {"hex": want}, {"ok": lib.ok(rec), "hex": (rec.get("out") or {}).get("hex"), "msgs": lib.first_messages(rec), "links": n})
    else:
        ctx.count("chain-ok:%s:%s" % (order, use))
        if n >= 3 and order != "forward":
            ctx.nontrivial_case(src.encode())


def shard(ctx):
    worker = ctx.worker("rel")
    i = ctx.shard
    while not ctx.out_of_time():
        rng = ctx.rng(i)
        i += ctx.nshards
        if i % 6 == 0:
            chain_case(ctx, rng, worker)
            continue
        prog = gen_tree(rng)
        fault = inject_fault(rng, prog) if rng.random() < 0.25 else None
        src = G.render(prog)
        job = lib.asm_job({"main.asm": src}, want=["symbols", "msgs"])
        rec = worker.run(job)
        ctx.evaluated()
        ctx.monitor("scoping-model")
        verdict = c01.judge(ctx, prog, src, rec, job)
        nrefs = sum(1 for it in prog["items"] if (it[0] == "data" and it[1] == 16) or it[0] == "instr")
        if verdict == "ok" and repeated_locals(prog) >= 1 and nrefs >= 3:
            ctx.nontrivial_case(src.encode())
            ctx.sample({"source": src[src.index("}") + 2:][:700], "bits": rec["out"]["hex"][:80]}, limit=1)
        elif verdict == "reject":
            ctx.nontrivial_case(src.encode())
            if fault:
                ctx.count("fault-confirmed:" + fault)
        if verdict == "ok" and fault is None:
            p2 = move_constant(rng, prog)
            if p2 is not None:
                src2 = G.render(p2)
                job2 = lib.asm_job({"main.asm": src2}, want=["symbols", "msgs"])
                rec2 = worker.run(job2)
                ctx.evaluated()
                ctx.monitor("constant-move-equality")
                if lib.abnormal(rec2):
                    ctx.excluded += 1
                    continue
                k1, k2 = lib.result_key(rec), lib.result_key(rec2)
                same = k1[0] == k2[0] and k1[1:3] == k2[1:3] and (k1[0] != "ok" or sorted(k1[3]) == sorted(k2[3]))
                if not same:
                    ctx.violation("constant-move", {"kind": "moving-a-constant-changes-the-result"}, job2,
                                  {"base_source": src, "bits": (k1[2] or "")[:80]}, {"ok": k2[0], "bits": (k2[2] or "")[:80] if k2[0] == "ok" else None})
                else:
                    ctx.count("moves-equal")


def replay(ctx, v):
    worker = ctx.worker("rel")
    rec = worker.run(v["job"])
    exp = v["expected"]
    if isinstance(exp, dict) and "base_source" in exp:
        base = worker.run(lib.asm_job({"main.asm": exp["base_source"]}, want=["symbols"]))
        a, b = lib.result_key(base), lib.result_key(rec)
        if a[0] != b[0] or a[1:3] != b[1:3]:
            ctx.violation(v["oracle"], v["sig"], v["job"], exp, b[0])
    else:
        c01.replay(ctx, v)
