"""C14 - file inclusion is relative, confined, acyclic and once-only where asked.

Model monitor (model/includes.py) over generated directory trees and inclusion graphs on the
recording file server (every file emits unique marker bytes, so the output *is* the expansion
order), exhaustive (start, length) ranges of incbin / incbinstr / inchexstr on small payloads, and
an OS-level confinement monitor on the real binary: scratch directory, sentinel file outside it,
strace log of every path touched.
"""
import os
import re
import shutil
import tempfile

import lib
import runner
from model import includes as I

SPEC = {
    "level": "exploration",
    "technique": "reference-model monitor for path resolution and include expansion (marker bytes make the output the expansion order) + exhaustive range enumeration of the inclusion functions + OS-level confinement monitor (sentinel file, strace of opened paths) on the real binary",
    "level_text": ("Exploration: thousands of generated trees/graphs (chains, diamonds, cycles, self-inclusion, #once subsets) "
                   "with every path spelling (./, ../, leading /, backslashes, doubled separators, <std>/ with ..) compared "
                   "with an independent path + expansion model; all (start, length) pairs on payloads <= 12 bytes plus "
                   "boundary magnitudes for incbin/incbinstr/inchexstr; and real-file-system runs in a scratch directory with a "
                   "sentinel outside it, a share of them under strace, asserting that nothing outside the scratch directory "
                   "is opened and the sentinel's content never reaches any output."),
    "level_note": ("A cycle that passes through a #once file may be reported as an error or silently cut: both accepted. "
                   "The confinement oracle ignores the dynamic loader's own opens. Trusts model/includes.py."),
    "design_ref": "DESIGN.md section 5, C14",
    "budget_s": {"quick": 60, "thorough": 1100},
    "needs": ["probe-rel", "cli-rel"],
    "rule": ("mock-server cases: random trees (<= 8 files, <= 3 directory levels) with include edges and spellings; range "
             "cases: every (start, len) in 0..14 x 0..14 on payloads of 0..12 bytes/digits per function, plus 2^k magnitudes; "
             "real-FS cases: escape attempts via every spelling; non-trivial = graph with >= 3 files and >= 1 non-trivial "
             "spelling, or a range case at/over a boundary, or an escape attempt that was rejected; distinct = distinct job"),
    "monitors": ["operand-inclusion-relative-to-instruction", "expansion-model", "path-model", "range-exact", "confinement-sentinel", "confinement-strace"],
    "min_nontrivial": {"quick": 1500, "thorough": 30000},
    "assumptions": ["recording file server keys files by exact project path, as FileServerMock does"],
}

DIRS = ["", "a/", "a/b/", "c/", "a/b/d/", "A/", "a/B/", "C/", "a/b/D/"]      # letter case is significant in names


def spell(rng, src_path, dst_path):
    """A path string that, written in src_path, should name dst_path - in a random spelling."""
    sdir = src_path.split("/")[:-1]
    d = dst_path.split("/")
    r = rng.random()
    if r < 0.25:
        rel = "/" + dst_path                      # project-absolute
    else:
        # relative: climb out of sdir to the common prefix
        k = 0
        while k < len(sdir) and k < len(d) - 1 and sdir[k] == d[k]:
            k += 1
        rel = "../" * (len(sdir) - k) + "/".join(d[k:])
    # decorations
    if rng.random() < 0.3:
        rel = "./" + rel if not rel.startswith("/") else rel
    if rng.random() < 0.2 and "/" in rel:
        i = rel.index("/")
        rel = rel[:i] + "//" + rel[i + 1:]
    if rng.random() < 0.2 and "/" in rel.strip("/"):
        parts = rel.split("/")
        j = rng.randrange(1, len(parts))
        parts.insert(j, ".")
        rel = "/".join(parts)
    if rng.random() < 0.15 and sdir:
        # detour through the own directory: x/../
        rel = (sdir[-1] + "/../" if not rel.startswith("/") and not rel.startswith("..") and not rel.startswith("./") else "") + rel \
            if False else rel
    if rng.random() < 0.25:
        rel = rel.replace("/", "\\")
    return rel


def gen_tree(rng):
    n = rng.randint(2, 8)
    paths = []
    for i in range(n):
        p = rng.choice(DIRS) + rng.choice(["f%d.asm", "f%d.asm", "F%d.asm", "f%d.ASM"]) % i
        paths.append(p)
    root = paths[0]
    files = {}
    for i, p in enumerate(paths):
        items = [("mark", i + 1)]
        for _ in range(rng.choice([0, 1, 1, 2, 3])):
            r = rng.random()
            if r < 0.75:
                t = rng.choice(paths[1:]) if rng.random() < 0.85 else rng.choice(paths)
                items.append(("include", spell(rng, p, t)))
            elif r < 0.85:
                items.append(("include", rng.choice(["../" * rng.randint(1, 4) + "x.asm", "..\\..\\..\\..\\y.asm", "/../z.asm", "a/../../q.asm"])))
            elif r < 0.92:
                items.append(("include", rng.choice(["nothere.asm", "a/nothere.asm", ".", "/", "", "./", "a/b/"])))
            else:
                items.append(("include", spell(rng, p, p)))       # self
            if rng.random() < 0.5:
                items.append(("mark", 0x40 + i))
        items.append(("mark", 0x80 + i))
        if i > 0 and rng.random() < 0.12:
            items = [it for it in items if it[0] != "mark"][:rng.choice([0, 0, 1])]      # a file that emits nothing itself
        files[p] = {"items": items, "once": rng.random() < 0.3}
        # a `#once` inside an arm that is not selected asks for nothing
        files[p]["dead_once"] = not files[p]["once"] and rng.random() < 0.15
    if rng.random() < 0.3:
        # a sibling whose name differs only by letter case is a different file
        p = rng.choice(paths)
        d, _, n = p.rpartition("/")
        twin = (d + "/" if d else "") + (n.upper() if n != n.upper() and rng.random() < 0.5 else n.swapcase())
        if rng.random() < 0.4 and d:
            twin = d.swapcase() + "/" + n
        if twin not in files:
            files[twin] = {"items": [("mark", 0xee)], "once": False, "dead_once": False}
    return files, root


def render_file(f):
    lines = []
    if f["once"]:
        lines.append("#once")
    if f.get("dead_once"):
        lines.append("#if 1 == 0\n{\n    #once\n}")
    for it in f["items"]:
        if it[0] == "mark":
            lines.append("#d8 0x%02x" % it[1])
        else:
            lines.append('#include "%s"' % it[1].replace("\\", "\\\\"))
    return "\n".join(lines) + "\n"


def include_case(ctx, rng, worker):
    files, root = gen_tree(rng)
    srcs = {p: render_file(f) for p, f in files.items()}
    extra = []
    if rng.random() < 0.25:
        # several input files: each is a root of its own; a `#once` file reachable from more than one is still spliced once
        cands = [p for p, f in files.items() if p != root and not f["once"]]
        extra = rng.sample(cands, min(len(cands), rng.randint(1, 2)))
    job = lib.asm_job(lib.files_json(srcs), roots=[root] + extra, want=["msgs", "fsevents"])
    rec = worker.run(job)
    ctx.evaluated()
    if lib.abnormal(rec):
        ctx.excluded += 1
        return
    ctx.monitor("expansion-model")
    ctx.monitor("path-model")
    try:
        want, ambiguous = I.expand(files, root, extra)
        err = None
    except I.ExpandError as e:
        want, err = None, e.kind
        ambiguous = False
    # path model: every file the run asked for must be the model's resolution of some include
    if err is None:
        if not lib.ok(rec):
            ctx.violation("includes", {"kind": "rejected-valid-graph", "first": (lib.first_messages(rec, 1) or ["?"])[0][:40]}, job,
                          {"bytes": want}, lib.first_messages(rec))
            return
        got = list(bytes.fromhex(rec["out"]["hex"])) if rec["out"]["len"] else []
        if got != want:
            ctx.violation("includes", {"kind": "expansion-order-differs"}, job, {"bytes": want}, {"bytes": got})
            return
        nontrivial = len(files) >= 3 and any(it[0] == "include" and re.search(r"\.\.|\\|//|^/|\./", it[1]) for f in files.values() for it in f["items"])
        if nontrivial:
            ctx.nontrivial_case(repr(sorted(srcs.items())).encode())
            ctx.sample({"root": root, "files": srcs, "expansion": want}, limit=1)
        ctx.count("graph-ok")
    else:
        if lib.ok(rec):
            # the only legitimate success: the model's ambiguity (cycle through a #once file)
            state_amb = False
            try:
                I.expand(files, root, extra)
            except I.ExpandError:
                pass
            ctx.violation("includes", {"kind": "accepted-invalid-graph", "model": err}, job, {"error": err},
                          {"bytes": rec["out"]["hex"]})
            return
        ctx.count("graph-rejected:" + err)
        ctx.nontrivial_case(repr(sorted(srcs.items())).encode())


# ------------------------------------------------------------------------------------------
# inclusion functions: exact ranges
# ------------------------------------------------------------------------------------------

def range_cases(ctx, worker, rng, exhaustive_upto):
    payloads = {
        "incbin": [bytes(rng.getrandbits(8) for _ in range(n)) for n in (0, 1, 2, 5, 12)],
        "incbinstr": ["", "1", "0110", "1_0 1\n0011", "101010101010"],
        "inchexstr": ["", "a", "0f3C", "dead_beef\n12", "0123456789ab"],
    }
    for fn, plist in payloads.items():
        for payload in plist:
            if fn == "incbin":
                units = list(payload)
                unit_bits = 8
                content = payload
            else:
                digits = [c for c in payload if c not in " _\r\n\t"]
                unit_bits = 1 if fn == "incbinstr" else 4
                units = [int(c, 16) for c in digits]
                content = payload
            n = len(units)
            combos = [(None, None)] + [(s, None) for s in range(0, n + 3)] + \
                     [(s, l) for s in range(0, n + 3) for l in range(0, n + 3)]
            big = [1 << 31, (1 << 32) - 1, 1 << 32, (1 << 63), (1 << 64) - 1, 1 << 64, (1 << 64) - n]
            combos += [(1, b) for b in big] + [(b, 1) for b in big] + [(b, b) for b in big[:3]]
            jobs = []
            for (s, l) in combos:
                if ctx.out_of_time():
                    return
                args = '"data/p.bin"' + ("" if s is None else ", %d" % s) + ("" if l is None else ", %d" % l)
                place = rng.choice(["root", "sub", "rule"])
                if place == "root":
                    files = {"main.asm": "#d %s(%s)\n#d8 0xee\n" % (fn, args), "data/p.bin": content}
                elif place == "sub":
                    files = {"main.asm": '#include "x/inner.asm"\n#d8 0xee\n', "x/inner.asm": "#d %s(%s)\n" % (fn, args.replace("data/p.bin", "../data/p.bin")),
                             "data/p.bin": content}
                else:
                    files = {"main.asm": '#include "x/rules.asm"\nemit\n#d8 0xee\n',
                             "x/rules.asm": "#ruledef\n{\n    emit => 0x5a @ %s(%s)\n}\n" % (fn, args.replace("data/p.bin", "/data/p.bin")),
                             "data/p.bin": content}
                job = lib.asm_job(lib.files_json(files), want=["msgs"])
                rec = worker.run(job)
                ctx.evaluated()
                ctx.monitor("range-exact")
                start = 0 if s is None else s
                end = n if l is None else start + l
                sig_base = {"fn": fn, "file_empty": n == 0, "explicit_args": (s is not None) + (l is not None)}
                if rec.get("outcome") in ("panic", "crash"):
                    ps = lib.panic_sig(rec) if rec.get("outcome") == "panic" else {"file": "?", "msg": "crash"}
                    ctx.violation("ranges", {"kind": "panic", **sig_base, "huge": max(start, end) >= (1 << 31), "msg": ps["msg"][:40]}, job,
                                  "error or bytes", rec.get("panic"))
                    continue
                if lib.abnormal(rec):
                    ctx.excluded += 1
                    continue
                valid = end <= n and (start < n or (n == 0 and s is None))
                must_reject = end > n
                if valid:
                    sel = units[start:end]
                    bits = "".join(format(u, "0%db" % unit_bits) for u in sel)
                    prefix = "01011010" if place == "rule" else ""
                    want_bits = prefix + bits + "11101110"
                    if not lib.ok(rec):
                        ctx.violation("ranges", {"kind": "valid-range-rejected", **sig_base}, job, {"bits": want_bits}, lib.first_messages(rec))
                        continue
                    nb, v = lib.out_bits(rec)
                    if lib.bits_str(nb, v) != want_bits:
                        ctx.violation("ranges", {"kind": "wrong-bytes", **sig_base}, job, {"bits": want_bits}, {"bits": lib.bits_str(nb, v)})
                        continue
                    ctx.count("range-ok:" + fn)
                    if end == n or start == 0:
                        ctx.nontrivial_case(repr((fn, content, s, l, place)).encode())
                elif must_reject:
                    if lib.ok(rec):
                        ctx.violation("ranges", {"kind": "range-past-end-accepted", **sig_base, "huge": max(start, end) >= (1 << 31)}, job,
                                      "error", {"out": rec["out"]["hex"]})
                        continue
                    ctx.count("range-rejected:" + fn)
                    ctx.nontrivial_case(repr((fn, content, s, l, place)).encode())
                else:
                    ctx.count("range-empty-at-eof-either")


# ------------------------------------------------------------------------------------------
# real file system: confinement
# ------------------------------------------------------------------------------------------

ESCAPES = ["../SENT", "..\\SENT", "../../SENT", "sub/../../SENT", "./../SENT", "/../SENT", "//../SENT", "..//SENT",
           "sub\\..\\..\\SENT", "<std>/../../SENT", "<std>/../SENT", "<std>/cpu/../../../SENT", "sub/./../../SENT", "/ABS"]


def real_case(ctx, rng, use_strace):
    outer = tempfile.mkdtemp(prefix="casm-c14-")
    try:
        work = os.path.join(outer, "proj", "w")
        os.makedirs(os.path.join(work, "sub"))
        marker = "5e4713e1"          # bytes 0x5e 0x47 0x13 0xe1 appear nowhere else
        for d in (outer, os.path.join(outer, "proj")):
            with open(os.path.join(d, "SENT"), "w") as f:
                f.write("#d32 0x%s\n" % marker)
        if rng.random() < 0.5:
            os.makedirs(os.path.join(work, "<std>", "cpu"))
        esc = rng.choice(ESCAPES).replace("/ABS", os.path.join(outer, "SENT"))
        how = rng.choice(["include", "incbin", "incbinstr", "inchexstr"])
        place = rng.choice(["main", "sub"])
        stmt = '#include "%s"' % esc.replace("\\", "\\\\") if how == "include" else '#d %s("%s")' % (how, esc.replace("\\", "\\\\"))
        if place == "main":
            files = {"main.asm": "#d8 1\n%s\n#d8 2\n" % stmt}
        else:
            files = {"main.asm": '#d8 1\n#include "sub/inner.asm"\n#d8 2\n', "sub/inner.asm": stmt + "\n"}
        for name, c in files.items():
            with open(os.path.join(work, name), "w") as f:
                f.write(c)
        res = runner.run_cli(ctx.cli("rel"), ["main.asm", "-f", "hexstr", "-o", "out.txt", "-q"], {}, cwd=work, strace=use_strace, cpu_s=10)
        ctx.evaluated()
        job = {"mode": "process", "files": lib.files_json(files), "argv": ["customasm", "main.asm", "-f", "hexstr", "-o", "out.txt", "-q"],
               "escape": esc, "how": how, "std_dir_exists": os.path.isdir(os.path.join(work, "<std>"))}
        ctx.monitor("confinement-sentinel")
        out_txt = ""
        p = os.path.join(work, "out.txt")
        if os.path.exists(p):
            with open(p) as f:
                out_txt = f.read()
        leaked = marker in out_txt or marker in res["stdout"] or "SENT" in out_txt and False
        # binary/text inclusion of the sentinel would embed its text bytes: "#d32" = 23643332
        leaked = leaked or "23643332" in out_txt
        names_std = esc.startswith("<std>")
        if leaked or res["status"] == 0:
            ctx.violation("confinement", {"kind": "escaped-working-directory" if leaked else "escape-path-accepted",
                                          "via_std_prefix": names_std, "std_dir_exists": job["std_dir_exists"]}, job,
                          "path rejected", {"status": res["status"], "out": out_txt[:80], "stderr": res["stderr"][:200]})
            return
        if res["signal"] is not None or res["status"] not in (0, 1):
            ctx.violation("confinement", {"kind": "crash-on-escape-path"}, job, "error", res["stderr"][-300:])
            return
        if use_strace and "strace" in res:
            ctx.monitor("confinement-strace")
            bad = []
            for ln in res["strace"].split("\n"):
                m = re.search(r'\b(?:openat|open|stat|newfstatat|access|statx|readlink)\((?:AT_FDCWD, )?"([^"]*)"', ln)
                if not m:
                    continue
                path = m.group(1)
                ap = os.path.normpath(os.path.join(work, path))
                if ap.startswith(work + os.sep) or ap == work:
                    continue
                if path.startswith(("/lib", "/usr/lib", "/etc/ld.so", "/proc/self", "/sys/", "/dev/")) or path == ctx.cli("rel") or "customasm" in path:
                    continue
                bad.append(path)
            if bad:
                ctx.violation("confinement", {"kind": "touched-path-outside-scratch", "via_std_prefix": names_std}, job,
                              "no file system access outside the working directory", bad[:5])
                return
            ctx.count("strace-clean")
        ctx.count("escape-rejected:" + how)
        ctx.nontrivial_case(repr((esc, how, place, job["std_dir_exists"])).encode())
    finally:
        shutil.rmtree(outer, ignore_errors=True)


def operand_case(ctx, rng, worker):
    """Inclusion functions inside *instruction operands*: the path is relative to the file that contains the
    instruction, not to the file that defines the rule (or sub-rule) the operand is matched by. A data file of the same
    name sits in every directory with different content, so the emitted bytes tell which one was read."""
    dirs = rng.sample(["", "lib/", "src/", "src/deep/", "inc/"], 3)
    rules_dir, code_dir, other_dir = dirs
    fn = rng.choice(["incbin", "incbin", "incbinstr", "inchexstr"])
    def content(tag):
        b = bytes([0x10 + tag, 0x20 + tag])
        if fn == "incbin":
            return b
        if fn == "inchexstr":
            return b.hex().encode()
        return "".join("{:08b}".format(x) for x in b).encode()
    files = {}
    for k, d in enumerate(dirs):
        files[d + "data.bin"] = content(k + 1)
    files[rules_dir + "cpu.asm"] = ("#subruledef operand\n{\n    imm {v} => 0x00 @ v`16\n    [{a}] => 0x01 @ a`16\n    [{a}], {o: inner} => 0x02 @ a`16 @ o\n}\n"
                                   "#subruledef inner\n{\n    plus {w} => 0x7 @ w`16\n}\n"
                                   "#ruledef\n{\n    raw {v} => 0xb0 @ v`16\n    ld {o: operand} => 0xa0 @ o\n    st {x: u8}, {o: operand} => 0xc0 @ x @ o\n}\n")
    call = '%s("data.bin")' % fn
    lines, want = [], ""
    mine = content(dirs.index(code_dir) + 1)
    val = mine.hex() if fn == "incbin" else mine.decode() if fn == "inchexstr" else "%04x" % int(mine.decode(), 2)
    for _ in range(rng.randint(2, 5)):
        form = rng.choice(["raw", "imm", "mem", "st", "nested"])
        if form == "raw":
            lines.append("raw " + call); want += "b0" + val
        elif form == "imm":
            lines.append("ld imm " + call); want += "a000" + val
        elif form == "mem":
            lines.append("ld [" + call + "]"); want += "a001" + val
        elif form == "st":
            lines.append("st 5, [" + call + "]"); want += "c00501" + val
        else:
            lines.append("ld [" + call + "], plus " + call); want += "a002" + val + "7" + val
    # hex digit count must be even for the comparison below (the `0x7` nibble makes one form odd): pad with a nibble
    if len(want) % 2:
        lines.append("#d4 0"); want += "0"
    up = "../" * code_dir.count("/")
    files[code_dir + "code.asm"] = '#include "%s%scpu.asm"\n' % (up, rules_dir) + "\n".join(lines) + "\n"
    root = code_dir + "code.asm"
    if rng.random() < 0.5:
        # the instructions live in a file included from a root in yet another directory
        root = other_dir + "root.asm"
        files[root] = '#include "%s%scode.asm"\n' % ("../" * other_dir.count("/"), code_dir)
    job = lib.asm_job(lib.files_json(files), roots=[root], want=["msgs"])
    rec = worker.run(job)
    ctx.evaluated()
    ctx.monitor("operand-inclusion-relative-to-instruction")
    if lib.abnormal(rec):
        ctx.excluded += 1
        return
    if not lib.ok(rec) or rec["out"]["hex"] != want:
        ctx.violation("includes", {"kind": "operand-inclusion-read-from-another-directory", "fn": fn, "ok": lib.ok(rec)}, job,
                      {"bytes": list(bytes.fromhex(want))}, {"ok": lib.ok(rec), "hex": (rec.get("out") or {}).get("hex"), "msgs": lib.first_messages(rec)})
    else:
        ctx.nontrivial_case(repr(sorted(files.items())).encode())


def shard(ctx):
    worker = ctx.worker("rel")
    rng0 = ctx.rng(ctx.shard, "ranges")
    if ctx.shard % 4 == 0:
        range_cases(ctx, worker, rng0, 14)
    i = ctx.shard
    n = 0
    while not ctx.out_of_time():
        rng = ctx.rng(i)
        i += ctx.nshards
        n += 1
        include_case(ctx, rng, worker)
        if n % 10 == 0:
            operand_case(ctx, rng, worker)
        if n % 25 == 0:
            real_case(ctx, rng, use_strace=(n % 100 == 0) or ctx.tier == "thorough")


def replay(ctx, v):
    job = v["job"]
    if job.get("mode") == "process":
        print("replay: re-run the check with the same VERIF_SEED (real file system case: %s via %s)" % (job.get("escape"), job.get("how")))
        return
    worker = ctx.worker("rel")
    rec = worker.run(job)
    print("replay: ok=%s out=%s msgs=%s" % (lib.ok(rec), (rec.get("out") or {}).get("hex"), lib.first_messages(rec)))
    exp = v["expected"]
    if rec.get("outcome") in ("panic", "crash"):
        ctx.violation(v["oracle"], v["sig"], job, exp, rec.get("panic"))
    elif isinstance(exp, dict) and "bytes" in exp:
        got = list(bytes.fromhex(rec["out"]["hex"])) if lib.ok(rec) and rec["out"]["len"] else None
        if got != exp["bytes"]:
            ctx.violation(v["oracle"], v["sig"], job, exp, got)
    elif exp == "error" or (isinstance(exp, dict) and "error" in exp):
        if lib.ok(rec):
            ctx.violation(v["oracle"], v["sig"], job, exp, "accepted")
    elif isinstance(exp, dict) and "bits" in exp:
        nb, val = lib.out_bits(rec) if lib.ok(rec) else (0, 0)
        if not lib.ok(rec) or lib.bits_str(nb, val) != exp["bits"]:
            ctx.violation(v["oracle"], v["sig"], job, exp, "differs")
