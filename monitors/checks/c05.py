"""C05 - expressions compute exact unbounded-integer mathematics with tracked sizes.

Oracle: model/expr.py (Python integers). Every generated tree is rendered twice (minimal and full
parenthesisation); both renderings are assembled as constants by the real library and the value and
size customasm reports for each (plus the bits a `#d` emits for sized results and the `symbols`
listing line) must equal the model's, or be an error exactly when the model says so.
"""
import lib
from gen import exprgen
from model import expr as M

SPEC = {
    "level": "exploration",
    "technique": "reference-model monitor: generated expression trees evaluated by the real library, compared with an independent Python big-integer evaluator (two renderings, three observation points)",
    "level_text": ("Exploration with an independent executable model as oracle: tens of thousands (quick) to millions "
                   "(thorough) of generated expression trees per run, each checked for exact value, size and error "
                   "behaviour at three observation points (symbol table, #d bits, symbols listing). Not exhaustive: "
                   "the space of trees is unbounded; evidence reports operators, literal forms and error kinds actually observed."),
    "level_note": ("Trusts monitors/model/expr.py (about 300 lines, no code shared with customasm) and the printer's "
                   "reading of the precedence ladder; magnitudes above 2^14 bits and strings with a leading byte >= 0x80 "
                   "in arithmetic are outside the oracle (DESIGN section 8)."),
    "design_ref": "DESIGN.md section 5, C05",
    "budget_s": {"quick": 55, "thorough": 1100},
    "needs": ["probe-rel"],
    "needs_thorough": ["probe-rel", "probe-chk"],
    "rule": ("cases are typed random expression trees (depth <= 6, all operators, literal spellings, bools, "
             "strings, builtins), seeded by (VERIF_SEED, case index); each is rendered with minimal and with full "
             "parentheses and evaluated by customasm as a constant; non-trivial = tree of depth >= 2 whose model "
             "result is a value (not an error) or a predicted error confirmed alone; distinct = distinct rendered text"),
    "monitors": ["value-equals-model", "error-iff-model-error", "renderings-agree", "data-bits-equal-model",
                 "symbols-listing-equals-model"],
    "min_nontrivial": {"quick": 2000, "thorough": 50000},
    "assumptions": ["model/expr.py is the reference semantics (trusted, independent of customasm code)",
                    "strings enter arithmetic only when their first encoded byte is < 0x80 (DESIGN section 8)",
                    "magnitudes stay below 2^14 bits; larger ones belong to C19"],
}

BATCH = 12
CONSTS = {"k0": ("int", 5, None), "k1": ("int", 255, 8), "kb": ("bool", True), "kn": ("int", -3, None)}
PRELUDE = "k0 = 5\nk1 = 0xff\nkb = true\nkn = -3\n"


class Env(M.Env):
    def sym(self, level, names):
        if level == 0 and len(names) == 1 and names[0] in CONSTS:
            return CONSTS[names[0]]
        raise M.EvalError("unknown symbol")


def predict(tree, lenient=False):
    env = Env()
    env.lenient_empty_slice = lenient
    try:
        v = M.ev(tree, env)
        return ("value", v, env.flags)
    except M.EvalError as e:
        return ("error", e.kind, env.flags)
    except M.AssertFailed:
        return ("error", "assert", env.flags)
    except M.Decline as e:
        return ("decline", str(e), env.flags)
    except RecursionError:
        return ("decline", "recursion", env.flags)


def observed_value(symj):
    v = symj["value"]
    k = v["k"]
    if k == "int":
        val, size = lib.int_value(v)
        return ("int", val, size)
    if k == "bool":
        return ("bool", v["v"])
    if k == "str":
        return ("str", v["v"], v["enc"])
    if k == "void":
        return ("void",)
    return (k,)


def same(a, b):
    return tuple(a) == tuple(b)


def make_case(ctx, i):
    rng = ctx.rng(i)
    g = exprgen.Gen(rng, CONSTS, max_depth=6)
    d = rng.choice([1, 2, 2, 3, 3, 4, 4, 5, 6])
    tree = g.gen_any(d)
    return tree


def run_program(ctx, worker, lines, want_formats=True):
    src = PRELUDE + "\n".join(lines) + "\n"
    job = lib.asm_job({"main.asm": src}, want=["symbols", "msgs"], formats=["symbols"] if want_formats else None)
    return job, worker.run(job)


def check_single(ctx, worker, idx, tree, text, pred, which):
    """Runs one rendering alone and judges it. Returns True if it held."""
    job, rec = run_program(ctx, worker, ["x = " + text], want_formats=False)
    ctx.evaluated()
    if lib.abnormal(rec):
        ctx.excluded += 1
        ctx.count("abnormal:" + rec.get("outcome", "?"))
        return None
    kind = pred[0]
    if kind == "value":
        ctx.monitor("value-equals-model")
        if not lib.ok(rec):
            ctx.violation("expr-model", {"kind": "unexpected-error", "top": tree[0] if tree[0] != "bin" else tree[1]},
                          job, {"value": pred[1]}, {"msgs": lib.first_messages(rec)}, note=which)
            return False
        obs = observed_value(lib.sym_table(rec)["x"])
        if not same(obs, pred[1]):
            ctx.violation("expr-model", {"kind": "value-mismatch", "top": tree[0] if tree[0] != "bin" else tree[1]},
                          job, {"value": pred[1]}, {"value": obs}, note=which)
            return False
        return True
    if kind == "error":
        ctx.monitor("error-iff-model-error")
        if lib.ok(rec):
            obs = observed_value(lib.sym_table(rec)["x"])
            sig = {"kind": "missing-error", "model_error": pred[1]}
            if "empty-slice" in pred[2]:
                # known-defect model: x[l-1:l] evaluates to an empty value
                alt = predict(tree, lenient=True)
                if alt[0] == "value" and same(alt[1], obs):
                    sig = {"kind": "empty-slice-accepted"}
            ctx.violation("expr-model", sig, job, {"error": pred[1]}, {"value": obs}, note=which)
            return False
        ctx.count("error-kind:" + pred[1])
        return True
    return None


def shard(ctx):
    worker = ctx.worker("rel")
    chk = ctx.worker("chk") if ctx.tier == "thorough" else None
    i = ctx.shard
    while not ctx.out_of_time():
        # one batch of cases
        batch = []
        for _ in range(BATCH):
            tree = make_case(ctx, i)
            batch.append((i, tree))
            i += ctx.nshards
        lines, expect = [], []
        for idx, tree in batch:
            pred = predict(tree)
            tmin, tfull = M.show(tree), M.show(tree, full=True)
            for op in exprgen.ops_in(tree):
                ctx.count("op:" + op)
            if pred[0] == "decline":
                ctx.inconclusive += 0   # model out of domain: not a case
                ctx.count("model-declined")
                continue
            depth = exprgen.depth(tree)
            if pred[0] == "error":
                ok_all = True
                for which, text in (("min", tmin), ("full", tfull)):
                    r = check_single(ctx, worker, idx, tree, text, pred, which)
                    ok_all = ok_all and bool(r)
                if ok_all and depth >= 2:
                    ctx.nontrivial_case(tmin.encode())
                if ok_all:
                    ctx.sample({"expr": tmin, "model": "error: " + pred[1], "customasm": "error"}, limit=2)
                continue
            n = len(expect)
            lines.append("a%d = %s" % (n, tmin))
            lines.append("b%d = %s" % (n, tfull))
            expect.append((idx, tree, pred, tmin, tfull, depth))
        if not expect:
            continue
        # data directive for sized integer results (both renderings, in order)
        data_bits = []
        dlines = []
        for n, (idx, tree, pred, tmin, tfull, depth) in enumerate(expect):
            v = pred[1]
            vi = M.as_int(v)
            if v[0] in ("int", "str") and vi is not None and vi[2] is not None and 0 < vi[2] <= 4096:
                dlines.append("#d a%d" % n)
                data_bits.append((vi[2], M.bits_of(vi[1], vi[2], 0)))
        job, rec = run_program(ctx, worker, lines + dlines)
        ctx.evaluated(2 * len(expect))
        if lib.abnormal(rec):
            # find the culprit individually (C03/C19 own the crash itself)
            ctx.excluded += 1
            ctx.count("abnormal:" + rec.get("outcome", "?"))
            continue
        if not lib.ok(rec):
            # someone errored although the model predicted values for all: judge one by one
            for (idx, tree, pred, tmin, tfull, depth) in expect:
                check_single(ctx, worker, idx, tree, tmin, pred, "min")
                check_single(ctx, worker, idx, tree, tfull, pred, "full")
            continue
        table = lib.sym_table(rec)
        listing = {}
        fm = (rec.get("formats") or {}).get("symbols") or {}
        for ln in (fm.get("t") or "").splitlines():
            if " = " in ln:
                nm, val = ln.split(" = ", 1)
                listing[nm] = val
        for n, (idx, tree, pred, tmin, tfull, depth) in enumerate(expect):
            oa = observed_value(table["a%d" % n])
            ob = observed_value(table["b%d" % n])
            ctx.monitor("value-equals-model", 2)
            ctx.monitor("renderings-agree")
            good = True
            top = tree[0] if tree[0] != "bin" else tree[1]
            if not same(oa, pred[1]):
                good = False
                single = lib.asm_job({"main.asm": PRELUDE + "x = " + tmin + "\n"})
                ctx.violation("expr-model", {"kind": "value-mismatch", "top": top}, single,
                              {"value": pred[1]}, {"value": oa}, note="min")
            if not same(ob, pred[1]):
                good = False
                single = lib.asm_job({"main.asm": PRELUDE + "x = " + tfull + "\n"})
                ctx.violation("expr-model", {"kind": "value-mismatch", "top": top}, single,
                              {"value": pred[1]}, {"value": ob}, note="full")
            if not same(oa, ob):
                ctx.count("renderings-disagree")
            if pred[1][0] == "int":
                ctx.monitor("symbols-listing-equals-model")
                v = pred[1][1]
                want = ("0x-%x" % -v) if v < 0 else ("0x%x" % v)
                got = listing.get("a%d" % n)
                if got != want:
                    good = False
                    ctx.violation("symbols-listing", {"kind": "listing-mismatch"}, job,
                                  {"line": "a%d = %s" % (n, want)}, {"line": got})
            if good:
                ctx.count("value-kind:" + pred[1][0] + (":sized" if pred[1][0] == "int" and pred[1][2] is not None else ""))
                if depth >= 2:
                    ctx.nontrivial_case(tmin.encode())
                if depth >= 3:
                    ctx.sample({"expr": tmin, "full": tfull, "model": list(pred[1]), "customasm": list(oa)}, limit=2)
        if data_bits:
            ctx.monitor("data-bits-equal-model")
            total = sum(s for s, _ in data_bits)
            val = 0
            for s, b in data_bits:
                val = (val << s) | b
            got = lib.out_bits(rec)
            if got != (total, val):
                ctx.violation("data-bits", {"kind": "data-bits-mismatch"}, job,
                              {"len": total, "bits": hex(val)}, {"len": got[0] if got else None, "bits": hex(got[1]) if got else None})
        # thorough: the overflow-checked build must agree (sanitizer-style twin)
        if chk is not None and (i // ctx.nshards) % 4 == 0:
            rec2 = chk.run(job)
            ctx.evaluated()
            ctx.monitor("chk-profile-agrees")
            if lib.abnormal(rec2):
                ctx.violation("chk-twin", {"kind": "chk-abnormal", **lib.panic_sig(rec2)}, job, "same result as release build",
                              {"outcome": rec2.get("outcome"), "panic": rec2.get("panic")})
            elif lib.result_key(rec2) != lib.result_key(rec):
                ctx.violation("chk-twin", {"kind": "chk-differs"}, job, "same result as release build", "differs")


def replay(ctx, v):
    worker = ctx.worker("rel")
    job = v["job"]
    rec = worker.run(job)
    exp = v.get("expected", {})
    if "error" in exp:
        if lib.ok(rec):
            obs = observed_value(lib.sym_table(rec).get("x") or {"value": {"k": "?"}})
            ctx.violation(v["oracle"], v["sig"], job, exp, {"value": obs})
    elif "value" in exp:
        t = lib.sym_table(rec)
        if not lib.ok(rec) or "x" not in t or list(observed_value(t["x"])) != list(exp["value"]):
            ctx.violation(v["oracle"], v["sig"], job, exp, {"msgs": lib.first_messages(rec), "value": list(observed_value(t["x"])) if "x" in t else None})
    else:
        print("replay: record re-executed; outcome=%s error=%s" % (rec.get("outcome"), rec.get("error")))
