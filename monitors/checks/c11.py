"""C11 - every output format carries exactly the assembled bits.

Round-trip monitor: for outputs of every length 0..4096 bits (several contents) and for multi-block
outputs, each binary-data format produced by driver::format_output is decoded by an independent
decoder (model/formats.py) and must yield exactly the assembled bits padded to the format's granule,
with correct addresses, counts and checksums.
"""
import lib
import runner
from model import formats as F

SPEC = {
    "level": "exploration",
    "technique": "round-trip monitor: independent decoder per output format applied to the real formatter's output for every output length 0..4096 bits and multi-block layouts; real-binary round writing the formats over pre-existing longer files and comparing the bytes on disk",
    "level_text": ("Exploration that is exhaustive over output length: every length 0..4096 bits is produced (with "
                   "random, all-ones and sparse contents; thorough: three contents per length) and all 17 binary-data format "
                   "spellings are decoded independently and compared bit for bit; multi-block outputs (gaps from #addr, "
                   "banks) exercise Intel HEX block detection and addressing. Contents are sampled, lengths are complete."),
    "level_note": ("Trusts the decoders in model/formats.py (written from the formats' public definitions). Intel HEX is "
                   "judged for blocks that start on a byte and address-unit boundary below 64 KiB x unit, which is all the "
                   "format as implemented can express (DESIGN section 8)."),
    "design_ref": "DESIGN.md section 5, C11",
    "budget_s": {"quick": 50, "thorough": 600},
    "needs": ["probe-rel", "cli-rel"],
    "needs_thorough": ["probe-rel", "probe-chk", "cli-rel"],
    "rule": ("single-block jobs: one per output length L in 0..4096 (x contents), built from #d8 bytes plus one #dK tail; "
             "multi-block jobs: 2-5 blocks separated by byte-aligned gaps or placed in banks; every job formatted in 17 "
             "format spellings; non-trivial = (length, content kind) pair whose formats were all decoded, with L > 0; "
             "distinct = distinct (layout, content)"),
    "monitors": ["decode-equals-bits", "intelhex-records", "multi-block", "real-binary-files", "fill-only"],
    "min_nontrivial": {"quick": 3000, "thorough": 10000},
    "assumptions": ["decoders are trusted"],
}


def gen_bits(rng, n, kind):
    if n == 0:
        return ""
    if kind == "random":
        return format(rng.getrandbits(n), "0%db" % n)
    if kind == "ones":
        return "1" * n
    if kind == "sparse":
        s = ["0"] * n
        for _ in range(max(1, n // 40)):
            s[rng.randrange(n)] = "1"
        s[-1] = "1"
        return "".join(s)
    if kind == "text":
        return "".join(format(rng.choice(b"Hello, world|\t\n ~\x7f\x80"), "08b") for _ in range((n + 7) // 8))[:n]
    raise ValueError(kind)


def data_lines(bits):
    """Source producing exactly these bits (MSB first) as one contiguous block."""
    lines = []
    n = len(bits)
    full = n // 8
    bs = [int(bits[8 * i:8 * i + 8], 2) for i in range(full)]
    for i in range(0, full, 16):
        lines.append("#d8 " + ", ".join("0x%02x" % b for b in bs[i:i + 16]))
    rem = n - 8 * full
    if rem:
        lines.append("#d%d 0b%s" % (rem, bits[8 * full:]))
    return lines


def expected_blocks(spans):
    """Maximal runs of contiguous sized spans (offset order)."""
    sized = sorted((s[0], s[1]) for s in spans if s[0] is not None and s[1] > 0)
    blocks = []
    for off, size in sized:
        if blocks and blocks[-1][0] + blocks[-1][1] == off:
            blocks[-1][1] += size
        else:
            blocks.append([off, size])
    return blocks


def judge(ctx, job, rec, want_bits, tag):
    """want_bits: expected full output bit string (independently constructed)."""
    if lib.abnormal(rec):
        ctx.excluded += 1
        return False
    if not lib.ok(rec):
        ctx.violation("formats", {"kind": "generator-program-rejected"}, job, "assembles", lib.first_messages(rec))
        return False
    n, v = lib.out_bits(rec)
    got_bits = lib.bits_str(n, v)
    if got_bits != want_bits:
        ctx.violation("formats", {"kind": "assembled-bits-unexpected"}, job, {"len": len(want_bits)}, {"len": n})
        return False
    fm = rec.get("formats") or {}
    good = True
    for fmt in F.FORMATS:
        out = fm.get(fmt)
        if out is None:
            ctx.violation("formats", {"kind": "format-missing", "format": fmt}, job, "present", None)
            good = False
            continue
        if "panic" in out:
            s = lib.panic_sig({"panic": out["panic"]})
            ctx.violation("formats", {"kind": "format-panic", "format": fmt.split(",")[0], "len_is_0": n == 0, "msg": s["msg"][:40]},
                          job, "formatted output", out["panic"])
            good = False
            continue
        payload = bytes.fromhex(out["h"]) if "h" in out else out["t"]
        if fmt.startswith("intelhex"):
            ctx.monitor("intelhex-records")
            unit = 8 if "," not in fmt else int(fmt.split(":")[1])
            blocks = expected_blocks(rec["out"]["spans"])
            if any(b[0] % 8 or b[0] % unit or b[0] // unit >= 65536 for b in blocks):
                ctx.count("intelhex-unjudged-unaligned")
                continue
            try:
                mem = F.dec_intelhex(payload, unit)
            except F.Bad as e:
                ctx.violation("formats", {"kind": "undecodable", "format": fmt, "why": str(e)[:40]}, job, "decodable", payload[:300])
                good = False
                continue
            padded = want_bits + "0" * 64
            exp = {}
            for off, size in blocks:
                o = off
                while o < off + size:
                    exp[o] = int(padded[o:o + 8].ljust(8, "0"), 2)
                    o += 8
            if mem != exp:
                missing = sorted(set(exp) - set(mem))[:5]
                extra = sorted(set(mem) - set(exp))[:5]
                diff = [k for k in exp if k in mem and mem[k] != exp[k]][:5]
                ctx.violation("formats", {"kind": "intelhex-content", "format": fmt}, job, "records carry exactly the block bytes",
                              {"missing_bit_offsets": missing, "extra": extra, "different": diff})
                good = False
            continue
        ctx.monitor("decode-equals-bits")
        try:
            dec = F.decode(fmt, payload, n)
        except (F.Bad, ValueError) as e:
            ctx.violation("formats", {"kind": "undecodable", "format": fmt, "why": str(e)[:40]}, job, "decodable", str(payload)[:300])
            good = False
            continue
        exp = F.pad(want_bits, F.GRANULE[fmt])
        if dec != exp:
            g = 8 * (16 if fmt == "hexdump" else 8 if fmt == "bindump" else 1)
            sig = {"kind": "decoded-bits-differ", "format": fmt, "decoded_len_vs_expected": "shorter" if len(dec) < len(exp) else
                   "longer" if len(dec) > len(exp) else "same"}
            if fmt in ("hexdump", "bindump"):
                sig["len_mod_line_in_1_7"] = (n % g) in range(1, 8)
            ctx.violation("formats", sig, job, {"bits": len(exp)}, {"bits": len(dec), "tail": str(payload)[-200:]})
            good = False
    return good


STALE = b"\xa5stale" * 4096


def real_cli_round(ctx, job, rec, rng):
    """The same program through the real binary: 4 formats written with `-o` over files that already exist with longer
    stale content, and once more into fresh names; the bytes on disk must equal the library's format output."""
    if not lib.ok(rec):
        return
    fmts = rng.sample(F.FORMATS, 4)
    files = {f[0]: (f[1] if isinstance(f[1], str) else bytes.fromhex(f[1]["h"])) for f in job["files"]}
    argv = ["main.asm", "-q"]
    want = {}
    for k, fmt in enumerate(fmts):
        name = "out%d.%s" % (k, "dat" if k % 2 else "txt")
        if k > 0:
            argv.append("--")
        argv += ["-f", fmt, "-o", name]
        d = rec["formats"].get(fmt) or {}
        want[name] = bytes.fromhex(d["h"]) if "h" in d else d.get("t", "").encode("utf8")
        if k < 3:
            files[name] = STALE          # the last group writes into a fresh name
    res = runner.run_cli(ctx.cli("rel"), argv, files, cpu_s=10)
    ctx.evaluated()
    ctx.monitor("real-binary-files")
    pjob = {"mode": "process", "argv": ["customasm"] + argv, "files": job["files"], "stale_outputs": sorted(want)[:3]}
    if res["status"] != 0:
        ctx.violation("real-binary", {"kind": "binary-fails-where-library-succeeds"}, pjob, "exit 0", {"status": res["status"], "err": res["stderr"][-300:]})
        return
    for name, data in want.items():
        got = res["created"].get(name)
        if got != data:
            fmt = fmts[int(name[3])]
            ctx.violation("real-binary", {"kind": "file-differs-from-format-output", "format": fmt.split(",")[0],
                                          "longer": got is not None and len(got) > len(data), "over_existing_file": name != "out3.dat"},
                          pjob, {"file": name, "len": len(data), "head": data[:60].hex()},
                          {"len": None if got is None else len(got), "head": None if got is None else got[:60].hex(),
                           "tail": None if got is None else got[-30:].hex()})
            return
    ctx.count("real-binary-ok")


def single_block_job(bits):
    src = "\n".join(data_lines(bits)) + "\n"
    return lib.asm_job({"main.asm": src}, want=["spans"], formats=F.FORMATS)


def multi_block(rng):
    """2-5 blocks separated by byte-aligned gaps (#addr) or in banks with gaps; returns (src, expected bits)."""
    nblocks = rng.randint(2, 5)
    lines = []
    out = ""
    use_banks = rng.random() < 0.4
    pos = 0
    if not use_banks and rng.random() < 0.3:
        g0 = 8 * rng.randint(1, 6)
        lines += ["vars:", "#res %d" % (g0 // 8)]
        out = "0" * g0
        pos = g0
    for b in range(nblocks):
        n = rng.choice([8, 16, 24, 256, 264, 8 * rng.randint(1, 70)])
        if rng.random() < 0.25:
            n += rng.randint(1, 7) if b == nblocks - 1 else 0
        bits = gen_bits(rng, n, rng.choice(["random", "ones", "random"]))
        gap = 8 * rng.choice([0, 1, 2, 4, 16, 33, 100]) if b > 0 else 0
        if use_banks:
            size_bytes = (n + 7) // 8 + rng.randint(0, 3)
            start = pos + gap
            lines.append("#bankdef b%d\n{\n    #addr 0x%x\n    #size 0x%x\n    #outp %d\n}" % (b, 0x1000 * (b + 1), size_bytes, start))
            if rng.random() < 0.3:
                lines.append("bl%d:" % b)
            if rng.random() < 0.15:
                # a bank that holds only a label (emits nothing)
                pos = start + 8 * size_bytes
                continue
            lines += data_lines(bits)
            out = out.ljust(start, "0") + bits
            pos = start + 8 * size_bytes
        else:
            if rng.random() < 0.4:
                lines.append("lab%d:" % b)                 # a label right before a gap (zero-sized span)
            if gap:
                if rng.random() < 0.5:
                    lines.append("#res %d" % (gap // 8))
                else:
                    lines.append("#addr 0x%x" % ((pos + gap) // 8))
                if rng.random() < 0.3:
                    lines.append("after%d:" % b)
            out = out.ljust(pos + gap, "0") + bits
            lines += data_lines(bits)
            pos = pos + gap + n
            if pos % 8:
                break
    return "\n".join(lines) + "\n", out


def fill_only_cases(ctx, worker, rng):
    """Outputs that consist of bank fill alone (no instruction, data or label is emitted: the span list is empty while
    the bit vector is not), and the completely empty program: every format must still carry exactly those bits."""
    for size in (0, 1, 2, 3, 4, 16, 17, 33):
        for body in ("", "#res 1\n", "k = 5\n", "#res %d\n" % size):
            if size == 0:
                src = body if body != "#res 1\n" and body != "#res 0\n" else ""
                bits = ""
            else:
                src = "#bankdef b\n{\n    #addr 0\n    #size %d\n    #outp 0\n    #fill\n}\n" % size + body
                bits = "0" * (8 * size)
            job = lib.asm_job({"main.asm": src}, want=["spans"], formats=F.FORMATS)
            rec = worker.run(job)
            ctx.evaluated()
            ctx.monitor("fill-only")
            if lib.abnormal(rec) or not lib.ok(rec):
                ctx.count("fill-only-rejected")
                continue
            if judge(ctx, job, rec, bits, "fill-only"):
                ctx.nontrivial_case(("fill", size, body).__repr__().encode())
                if size in (0, 4, 17):
                    real_cli_round(ctx, job, rec, rng)


def shard(ctx):
    worker = ctx.worker("rel")
    if ctx.shard == 2 % ctx.nshards:
        fill_only_cases(ctx, worker, ctx.rng(0, "fill"))
    chk = ctx.worker("chk") if ctx.tier == "thorough" else None
    kinds = ["random"] if ctx.tier == "quick" else ["random", "ones", "sparse"]
    lengths = list(range(0, 4097))
    cases = [(L, k) for L in lengths for k in kinds]
    if ctx.tier == "quick":
        cases += [(L, "ones") for L in range(0, 4097, 7)] + [(L, "text") for L in range(0, 2049, 8)]
    mine = [c for i, c in enumerate(cases) if i % ctx.nshards == ctx.shard]
    done = 0
    for (L, kind) in mine:
        if ctx.out_of_time():
            ctx.count("lengths-skipped")
            continue
        rng = ctx.rng(L, kind)
        bits = gen_bits(rng, L, kind)
        job = single_block_job(bits)
        rec = worker.run(job)
        ctx.evaluated()
        if judge(ctx, job, rec, bits, "single"):
            if L > 0:
                ctx.nontrivial_case(("single", L, kind).__repr__().encode())
            ctx.count("length-ok:%s" % kind)
            if L % 16 == 3 or L < 24:
                real_cli_round(ctx, job, rec, rng)
            if L in (129, 1000):
                ctx.sample({"length_bits": L, "content": kind, "formats_decoded": len(F.FORMATS),
                            "hexdump": (rec["formats"]["hexdump"].get("t") or "")[:400]}, limit=1)
        if chk is not None and L % 5 == 0:
            rec2 = chk.run(job)
            ctx.evaluated()
            judge(ctx, job, rec2, bits, "single-chk")
        done += 1
    ctx.count("lengths-covered", done)
    i = ctx.shard
    n_multi = 0
    while not ctx.out_of_time() and n_multi < (150 if ctx.tier == "quick" else 5000):
        rng = ctx.rng(i, "multi")
        i += ctx.nshards
        n_multi += 1
        src, bits = multi_block(rng)
        job = lib.asm_job({"main.asm": src}, want=["spans"], formats=F.FORMATS)
        rec = worker.run(job)
        ctx.evaluated()
        ctx.monitor("multi-block")
        if lib.ok(rec) or lib.abnormal(rec):
            if judge(ctx, job, rec, bits, "multi"):
                ctx.nontrivial_case(src.encode())
                ctx.count("multi-block-ok")
                if n_multi % 4 == 0:
                    real_cli_round(ctx, job, rec, rng)
        else:
            # a generated layout may legitimately be rejected (bank overflow); not judged
            ctx.count("multi-block-rejected")


def finalize(tier, counters, monitors, nontrivial, evaluations):
    return {"exhaustive": counters.get("lengths-skipped", 0) == 0,
            "exhaustive_scope": "every output length 0..4096 bits (contents sampled): %d (length, content) cases covered" % counters.get("lengths-covered", 0)}


def replay(ctx, v):
    worker = ctx.worker("rel")
    job = v["job"]
    rec = worker.run(job)
    if lib.ok(rec):
        n, val = lib.out_bits(rec)
        judge(ctx, job, rec, lib.bits_str(n, val), "replay")
