"""C03 - failure is always loud and success always clean; the assembler never crashes.

Universal monitor U1 at three levels (library, driver with a recording / faulty file server, real
process), over token-level mutants with non-ASCII characters, command-line option combinations and
single permanent I/O faults (every input unreadable / missing, every output unwritable).
Thorough tier also drives the same oracle from libFuzzer (coverage-guided workload generation).
"""
import os
import re
import shutil
import subprocess
import time

import lib
import runner
from gen import cli as C
from gen import mutate
from gen import workload
from checks.c08 import lib_digest

SPEC = {
    "level": "fault_enumeration",
    "technique": "invariant monitor (exactly-one-of success/failure, no crash) over mutated inputs at library, driver and process level + single-fault enumeration of every file read and write; libFuzzer as coverage-guided workload generator and valgrind memcheck over real command lines in the thorough tier",
    "level_text": ("Fault enumeration + exploration: for every job each input file is made missing and unreadable in turn and "
                   "each output write is made to fail in turn (complete enumeration of single permanent I/O faults for that "
                   "job), and tens of thousands of token-level mutants (non-ASCII anywhere) and option combinations are run "
                   "at library, driver and real-process level under the exactly-one-of(success, loud failure) monitor. "
                   "Crashes are keyed by panic site so a listed crash does not hide a new one."),
    "level_note": ("Totality is explored, not proved; reach = mutation operators x corpus + generators. Resource exhaustion "
                   "(deep nesting, huge magnitudes) is C19's domain: literals created by the mutator stay below 2^20 and "
                   "jobs that exceed the CPU budget are reported by C19, not here."),
    "design_ref": "DESIGN.md sections 4 (U1) and 5 (C03)",
    "budget_s": {"quick": 75, "thorough": 1300},
    "needs": ["probe-rel", "cli-rel"],
    "needs_thorough": ["probe-rel", "probe-chk", "cli-rel"],
    "owns_abnormal": True,
    "rule": ("library jobs: mutants of corpus files and of generated programs under random options; driver jobs: the same "
             "files under generated command lines (<= 4 groups, all formats, -o/-p, budgets, defines, debug switches) with "
             "the recording file server; fault jobs: one run per (file, missing|unreadable) and per write index; process "
             "jobs: the real binary in a scratch directory incl. directory-as-input and unwritable output paths; "
             "non-trivial = job that reached the assembler (not rejected at command-line parsing) and either succeeded "
             "or failed with a located diagnostic; distinct = distinct (files, options, fault)"),
    "monitors": ["u1-library", "u1-driver", "u1-process", "fault-read", "fault-write"],
    "min_nontrivial": {"quick": 2000, "thorough": 50000},
    "assumptions": ["the recording file server implements the public FileServer trait faithfully (fault = Err + error message, as the real server does)"],
}


# ------------------------------------------------------------------------------------------
# U1
# ------------------------------------------------------------------------------------------

def crash_sig(rec, job=None):
    if rec.get("outcome") == "panic":
        s = lib.panic_sig(rec)
        return {"kind": "panic", "file": s["file"], "msg": s["msg"]}
    if rec.get("outcome") == "crash":
        tail = rec.get("stderr", "")
        what = "stack-overflow" if "overflowed its stack" in tail else "abort" if "memory allocation" in tail else "crash"
        sig = {"kind": what, "signal": rec.get("signal")}
        if what == "stack-overflow" and job is not None:
            # exact trigger of the listed left-recursion finding (C19 lists the same root cause)
            sig["left_recursive_subrule"] = lib.left_recursive_subrule(job.get("files") or [])
        return sig
    return {"kind": rec.get("outcome")}


def u1_library(ctx, job, rec, level="library"):
    """Returns 'ok' | 'fail' | None(violation or not judged)."""
    ctx.monitor("u1-" + level if level != "fault" else "u1-library")
    out = rec.get("outcome")
    if out in ("panic", "crash"):
        ctx.violation("u1", crash_sig(rec, job), job, "normal end", {"outcome": out, "panic": rec.get("panic"), "stderr": rec.get("stderr", "")[-300:]})
        return None
    if out in ("cpu-timeout", "wall-timeout"):
        ctx.count("timeout-left-to-C19")
        ctx.excluded += 1
        return None
    if out != "done":
        ctx.inconclusive += 1
        return None
    success = (not rec.get("error")) and rec.get("has_output") and rec.get("nerrors") == 0
    failure = bool(rec.get("error")) and (not rec.get("has_output")) and rec.get("nerrors", 0) >= 1
    if success == failure:
        sig = {"kind": "neither-success-nor-failure", "error": bool(rec.get("error")), "has_output": bool(rec.get("has_output")),
               "nerrors>0": rec.get("nerrors", 0) > 0, "first": (lib.first_messages(rec, 1) or ["?"])[0][:40]}
        ctx.violation("u1", sig, job, "exactly one of success/failure",
                      {"error": rec.get("error"), "has_output": rec.get("has_output"), "nerrors": rec.get("nerrors"),
                       "msgs": lib.first_messages(rec)})
        return None
    pr = rec.get("printed")
    if isinstance(pr, dict) and "panic" in pr:
        s = lib.panic_sig({"panic": pr["panic"]})
        ctx.violation("u1", {"kind": "panic-while-printing", "file": s["file"], "msg": s["msg"]}, job, "diagnostics printable", pr["panic"])
        return None
    return "ok" if success else "fail"


def u1_driver(ctx, job, rec, plan=None):
    ctx.monitor("u1-driver")
    out = rec.get("outcome")
    if out in ("panic", "crash"):
        ctx.violation("u1", crash_sig(rec, job), job, "normal end", {"outcome": out, "panic": rec.get("panic")})
        return None
    if out != "done":
        ctx.excluded += 1
        return None
    writes = rec.get("writes") or []
    ok_writes = [w for w in writes if w["ok"]]
    failed_writes = [w for w in writes if not w["ok"]]
    pr = rec.get("printed")
    if isinstance(pr, dict) and "panic" in pr:
        s = lib.panic_sig({"panic": pr["panic"]})
        ctx.violation("u1", {"kind": "panic-while-printing", "file": s["file"], "msg": s["msg"]}, job, "diagnostics printable", pr["panic"])
        return None
    if rec.get("drive_ok"):
        if rec.get("nerrors", 0) != 0:
            ctx.violation("u1", {"kind": "driver-ok-with-error-diagnostic", "first": (lib.first_messages(rec, 1) or ["?"])[0][:40]},
                          job, "no error diagnostic on success", {"msgs": lib.first_messages(rec), "writes": [w["name"] for w in writes]})
            return None
        if failed_writes:
            ctx.violation("u1", {"kind": "driver-ok-with-failed-write"}, job, "failure", [w["name"] for w in failed_writes])
            return None
        return "ok"
    # failure
    if rec.get("nerrors", 0) < 1:
        ctx.violation("u1", {"kind": "driver-failure-without-diagnostic"}, job, ">= 1 error", {"nmsgs": rec.get("nmsgs")})
        return None
    if ok_writes and not failed_writes:
        ctx.violation("u1", {"kind": "driver-failure-with-output-written"}, job, "no write events",
                      {"writes": [w["name"] for w in ok_writes], "msgs": lib.first_messages(rec)})
        return None
    return "fail"


# ------------------------------------------------------------------------------------------
# workloads
# ------------------------------------------------------------------------------------------

def random_opts(rng):
    return {"iters": rng.choice([1, 1, 2, 3, 10, 10, 10]), "opt_static": rng.random() < 0.8,
            "opt_matcher": rng.random() < 0.8}


def draw_files(rng):
    w = workload.draw(rng, kinds=("mut", "isamut", "corpus", "casc", "isa", "macro", "ifs", "chain"), weights=(6, 3, 1, 1, 1, 1, 1, 0.3))
    if rng.random() < 0.25:
        # non-ASCII characters anywhere, including outside comments and strings
        name = rng.choice([n for n in w["files"]])
        t = w["files"][name]
        if isinstance(t, bytes):
            t = t.decode("utf8", "replace")
        pos = rng.randint(0, len(t))
        w["files"][name] = t[:pos] + rng.choice(mutate.NONASCII) + t[pos:]
        w["tag"] += "+nonascii"
    if rng.random() < 0.04:
        # an inclusion graph below a subdirectory, named relatively in several spellings; half of them are cyclic
        root = w["roots"][0]
        t = w["files"].get(root)
        if isinstance(t, bytes):
            t = t.decode("utf8", "replace")
        if isinstance(t, str) and not any(n.startswith("zlib/") for n in w["files"]):
            cyclic = rng.random() < 0.5
            back = rng.choice(['"a.asm"', '"./a.asm"', '"../zlib/a.asm"', '"./../zlib/./a.asm"', '"b.asm"', '"./b.asm"'])
            d = os.path.dirname(root)
            w["files"][(d + "/" if d else "") + "zlib/a.asm"] = '#include "b.asm"\n'
            w["files"][(d + "/" if d else "") + "zlib/b.asm"] = ("#include " + back + "\n") if cyclic else "#d8 0x5a\n"
            w["files"][root] = t + ("" if t.endswith("\n") else "\n") + '#include "zlib/a.asm"\n'
            w["tag"] += "+incgraph" + ("-cyclic" if cyclic else "")
    return w


def library_case(ctx, rng, worker, chk):
    w = draw_files(rng)
    job = workload.job_of(w, want=["msgs", "printed"], opts=random_opts(rng))
    rec = worker.run(job)
    ctx.evaluated()
    v = u1_library(ctx, job, rec)
    if v:
        ctx.count("library:" + v)
        if v == "ok" or (rec.get("msgs") and rec["msgs"][0].get("span")):
            ctx.nontrivial_case(lib_digest(w, 0))
        if v == "fail":
            ctx.sample({"level": "library", "tag": w["tag"], "outcome": "failure", "first_error": lib.first_messages(rec, 1)}, limit=1)
    if chk is not None:
        rec2 = chk.run(job)
        ctx.evaluated()
        v2 = u1_library(ctx, job, rec2, level="library")
        if v2:
            ctx.count("library-chk:" + v2)
    return w


def driver_case(ctx, rng, worker, w=None):
    w = w or draw_files(rng)
    argv, model = C.gen_argv(rng, w["roots"], validity=rng.random() < 0.85)
    job = {"mode": "drive", "files": lib.files_json(w["files"]), "argv": argv, "std": w["std"], "want": ["msgs", "printed"]}
    rec = worker.run(job)
    ctx.evaluated()
    v = u1_driver(ctx, job, rec)
    if v:
        ctx.count("driver:" + v)
        pred = C.predict(model)
        if pred[0] == "run":
            ctx.nontrivial_case(lib_digest(w, " ".join(argv)))
        if v == "ok":
            ctx.sample({"level": "driver", "argv": argv, "writes": [x["name"] for x in rec.get("writes", [])]}, limit=1)
    return job, rec


def fault_cases(ctx, rng, worker, job, rec):
    """Single permanent fault enumeration for one driver job that ran normally."""
    if rec.get("outcome") != "done":
        return
    files_touched = sorted(set(n for n, okf in (rec.get("handles") or []) if okf and not n.startswith("<std>")))
    nwrites = len(rec.get("writes") or [])
    plans = [("handle_fail", f) for f in files_touched] + [("read_fail", f) for f in files_touched] + \
            [("write_fail", k) for k in range(nwrites)]
    for kind, what in plans[:24]:
        j = dict(job)
        j["fault"] = {kind: [what]}
        r = worker.run(j)
        ctx.evaluated()
        ctx.monitor("fault-read" if kind != "write_fail" else "fault-write")
        v = u1_driver(ctx, j, r)
        ctx.count("fault:" + kind)
        if v == "ok" and kind != "write_fail":
            # a file that was needed before is now missing/unreadable: success is only legitimate if
            # the run no longer needed it - it was touched in the fault-free run, so it must fail
            ctx.violation("fault", {"kind": "success-despite-unreadable-input", "fault": kind}, j, "failure", "drive_ok")
        elif v == "ok" and kind == "write_fail":
            ctx.violation("fault", {"kind": "success-despite-failed-write"}, j, "failure", "drive_ok")
        elif v == "fail":
            if kind == "write_fail":
                # outputs after the failed one must not be written
                ws = r.get("writes") or []
                later = [x["name"] for x in ws[what + 1:]]
                if later:
                    ctx.violation("fault", {"kind": "writes-continue-after-failed-write"}, j, "stop at failed write", later)
            ctx.nontrivial_case(lib.result_key and lib_digest({"files": {"j": str(job["argv"])}}, kind + str(what)))


CLI_FORMATS = ["binary", "annotated", "hexdump", "intelhex", "symbols", "mesen-mlb", "addrspan", "mif", "tcgame"]


def process_case(ctx, rng):
    """Real binary in a scratch directory."""
    w = draw_files(rng)
    files = dict(w["files"])
    argv, model = C.gen_argv(rng, w["roots"], max_groups=3, validity=rng.random() < 0.9, with_help=False)
    # restrict output names to the scratch directory
    fault = rng.random()
    extra_dirs = []
    expect_fail = None
    if fault < 0.08:
        # an input that is a directory
        extra_dirs.append("adir.asm")
        argv = argv[:1] + ["adir.asm"] + argv[1:]
        expect_fail = "input-is-directory"
    elif fault < 0.16:
        argv += ["--", "-f", "binary", "-o", "missing_dir/out.bin"]
        expect_fail = "output-dir-missing"
    elif fault < 0.22:
        extra_dirs.append("outdir")
        argv += ["--", "-f", "binary", "-o", "outdir"]
        expect_fail = "output-is-directory"
    elif fault < 0.28:
        argv = argv[:1] + ["nonexistent_input.asm"] + argv[1:]
        expect_fail = "input-missing"
    elif fault < 0.34:
        # the output opens but cannot be written (intelhex is never empty: it always ends with an EOF record)
        argv += ["--", "-f", "intelhex", "-o", "/dev/full"]
        expect_fail = "output-device-full"
    elif fault < 0.40:
        # file-size limit 0: every write to a regular file fails with EFBIG
        argv += ["--", "-f", "intelhex", "-o", "limited.hex"]
        expect_fail = "output-file-size-limit"
    for g in model["groups"]:
        if g.get("output") and g["output"].startswith("dir/"):
            extra_dirs.append("dir")
    res = runner.run_cli(ctx.cli("rel"), argv[1:], files, extra_dirs=extra_dirs, cpu_s=10, wall_s=60,
                         fsize=0 if expect_fail == "output-file-size-limit" else 1 << 30)
    ctx.evaluated()
    ctx.monitor("u1-process")
    job = {"argv": argv, "files": lib.files_json(files), "extra_dirs": extra_dirs, "mode": "process"}
    if res["wall_timeout"] or res["signal"] in (24, 9) and res["cpu_s"] > 9:
        ctx.excluded += 1
        return
    if res["signal"] is not None:
        what = "stack-overflow" if "overflowed its stack" in res["stderr"] else "signal"
        m = re.search(r"panicked at ([^:]+):", res["stderr"])
        psig = {"kind": what, "signal": res["signal"]}
        if what == "stack-overflow":
            psig["left_recursive_subrule"] = lib.left_recursive_subrule(files)
        ctx.violation("u1-process", psig, job, "exit status 0 or 1", res["stderr"][-400:])
        return
    if res["status"] not in (0, 1):
        m = re.search(r"panicked at ([^:\s]+):\d+:\d+:\s*\n?(.*)", res["stderr"])
        sig = {"kind": "process-panic", "file": m.group(1).replace(lib.REPO + "/", "") if m else "?",
               "msg": re.sub(r"\d+", "N", re.sub(r"`[^`]*`", "`_`", re.sub(r"'[^']*'", "'_'", m.group(2)))).split(" of `")[0][:60] if m else res["stderr"][-60:]}
        ctx.violation("u1-process", sig, job, "exit status 0 or 1", {"status": res["status"], "stderr": res["stderr"][-400:]})
        return
    has_err = "error:" in res["stderr"]
    created = sorted(res["created"])
    if res["status"] == 0:
        if has_err:
            ctx.violation("u1-process", {"kind": "exit-0-with-error-diagnostic",
                                         "first": re.search(r"error: ([^\n]{0,40})", res["stderr"]).group(1)},
                          job, "no error on success", {"stderr": res["stderr"][:400], "created": created})
            return
        if expect_fail:
            ctx.violation("u1-process", {"kind": "exit-0-despite-fault", "fault": expect_fail}, job, "failure", {"created": created})
            return
        ctx.count("process:ok")
        ctx.nontrivial_case(lib_digest(w, " ".join(argv)))
        ctx.sample({"level": "process", "argv": argv, "status": 0, "created": created}, limit=1)
    else:
        if not has_err:
            ctx.violation("u1-process", {"kind": "exit-1-without-diagnostic"}, job, "error diagnostic", res["stderr"][-300:])
            return
        if expect_fail in ("output-device-full", "output-file-size-limit"):
            created = [c for c in created if len(res["created"][c]) > 0]       # earlier groups may have created empty files
        if created and expect_fail not in ("output-dir-missing", "output-is-directory", "output-device-full"):
            ctx.violation("u1-process", {"kind": "exit-1-with-files-created"}, job, "no files", {"created": created, "stderr": res["stderr"][:300]})
            return
        ctx.count("process:fail" + (":" + expect_fail if expect_fail else ""))
        if expect_fail:
            ctx.nontrivial_case(lib_digest(w, " ".join(argv) + expect_fail))


FAILING_EXPRS = ["{ assert(1 == 2), 4 }", "chk(6)", "(chk(9) + 1)", "{ assert(lbl > 1000), 2 }", "asm { boom 6 }"]
EXPR_POSITIONS = ["#res %s", "#align %s", "#addr %s", "#d8 %s", "#d %s`8", "ld %s", "k = %s\n#d8 k", "#assert %s == 4", "#if %s == 4\n{\n#d8 1\n}",
                  "#bankdef z\n{\n    #addr %s\n    #outp 0\n}", "#bankdef z\n{\n    #addr 0\n    #size %s\n    #outp 0\n}",
                  "#d8 1\n#res %s\n#d8 2", "k = %s\n#res k", "#d8 incbin(\"data.bin\", %s, 1)", "#labelalign_probe"]


def failing_expression_cases(ctx, worker):
    """An expression whose evaluation *fails by itself* (a failed assert(), directly, through a user function or through
    an asm block) in every position that takes an expression: the failure travels through the evaluator as a value, so
    each consumer has to turn it into a diagnostic - exactly one of clean success / loud failure, never a panic."""
    head = ("#ruledef\n{\n    ld {x} => 0x10 @ x`8\n    boom {n} => { assert(n <= 4), 0x55 }\n}\n"
            "#fn chk(n) => { assert(n <= 4), n }\n")
    for pos in EXPR_POSITIONS:
        if "%s" not in pos:
            continue
        for e in FAILING_EXPRS:
            for passing in (False, True):
                ex = e.replace("1 == 2", "2 == 2").replace("(6)", "(4)").replace("(9)", "(3)").replace("> 1000", ">= 0").replace("boom 6", "boom 4") if passing else e
                src = head + pos % ex + "\nlbl:\n"
                job = lib.asm_job({"main.asm": src, "data.bin": {"h": "0102030405060708"}}, want=["msgs", "printed"])
                rec = worker.run(job)
                ctx.evaluated()
                v = u1_library(ctx, job, rec)
                if v:
                    ctx.count("failing-expression:" + v)
                    if v == "fail" and not passing:
                        ctx.nontrivial_case(src.encode())


def shard(ctx):
    worker = ctx.worker("rel")
    chk = ctx.worker("chk") if ctx.tier == "thorough" else None
    if ctx.shard == 1 % ctx.nshards:
        failing_expression_cases(ctx, worker)
    fuzz_until = None
    if ctx.tier == "thorough" and ctx.shard == 0:
        fuzz(ctx)
    if ctx.tier == "thorough" and ctx.shard in (1, 2, 3):
        memcheck(ctx)
    i = ctx.shard
    n = 0
    while not ctx.out_of_time():
        rng = ctx.rng(i)
        i += ctx.nshards
        n += 1
        w = library_case(ctx, rng, worker, chk if n % 3 == 0 else None)
        job, rec = driver_case(ctx, rng, worker, w if rng.random() < 0.5 else None)
        if n % 6 == 0:
            fault_cases(ctx, rng, worker, job, rec)
        if n % 40 == 0:
            process_case(ctx, rng)


def memcheck(ctx, seconds=300):
    """valgrind memcheck (thorough tier) over the real binary on the process workload: invalid reads/writes, use of
    uninitialised values and invalid frees in customasm or its dependencies are reported through exit code 97."""
    import shutil
    if not shutil.which("valgrind"):
        ctx.count("memcheck:valgrind-missing")
        return
    t_end = time.time() + seconds
    k = 0
    while time.time() < t_end and not ctx.out_of_time():
        rng = ctx.rng(ctx.shard * 100000 + k, "memcheck")
        k += 1
        w = draw_files(rng)
        argv, model = C.gen_argv(rng, w["roots"], max_groups=3, validity=rng.random() < 0.9, with_help=False)
        dirs = ["dir"] if any((g.get("output") or "").startswith("dir/") for g in model["groups"]) else []
        res = runner.run_cli("valgrind", ["-q", "--error-exitcode=97", "--leak-check=no", ctx.cli("rel")] + argv[1:], dict(w["files"]),
                             extra_dirs=dirs, cpu_s=120, as_gib=32, wall_s=300)
        ctx.evaluated()
        if res["wall_timeout"] or res["signal"] is not None:
            ctx.count("memcheck:inconclusive-run")
            continue
        ctx.monitor("memcheck")
        if res["status"] == 97 or "== Invalid " in res["stderr"] or "uninitialised" in res["stderr"]:
            m = re.search(r"==\d+== ([A-Z][^\n]{0,60})", res["stderr"])
            ctx.violation("memcheck", {"kind": "memcheck-report", "first": re.sub(r"\d+", "N", m.group(1)) if m else "?"},
                          {"argv": argv, "files": lib.files_json(w["files"]), "mode": "process", "tool": "valgrind"},
                          "no memcheck report", res["stderr"][-600:])
        else:
            ctx.count("memcheck:clean-run")


# ------------------------------------------------------------------------------------------
# libFuzzer (thorough tier): coverage-guided workload generator calling the same U1 oracle
# ------------------------------------------------------------------------------------------

def fuzz(ctx):
    """Builds the cargo-fuzz target (`-s none`: libFuzzer only as coverage-guided generator) and runs 8 instances
    for 7 minutes; every artifact (crash / timeout input) is re-executed through the recorder and judged by U1."""
    fuzz_dir = os.path.join(runner.HARNESS, "fuzz")
    if not os.path.isdir(fuzz_dir):
        ctx.count("fuzz-target-missing")
        return
    env = dict(runner.ENV_BASE)
    tdir = os.path.join(runner.TARGET, "fuzz")
    env["CARGO_TARGET_DIR"] = tdir
    env["RUSTFLAGS"] = "--cfg " + runner.GUARD
    p = subprocess.run(["cargo", "+nightly", "fuzz", "build", "-s", "none", "c03_totality"], cwd=fuzz_dir, env=env,
                       stdout=subprocess.PIPE, stderr=subprocess.STDOUT)
    binary = os.path.join(tdir, "x86_64-unknown-linux-gnu", "release", "c03_totality")
    if p.returncode != 0 or not os.path.exists(binary):
        ctx.count("fuzz-build-failed")
        ctx.inconclusive += 1
        return
    corpus_dir = os.path.join(runner.TARGET, "fuzz-corpus")
    art = os.path.join(runner.TARGET, "fuzz-artifacts")
    shutil.rmtree(art, ignore_errors=True)
    shutil.rmtree(corpus_dir, ignore_errors=True)
    os.makedirs(corpus_dir, exist_ok=True)
    os.makedirs(art, exist_ok=True)
    for name, root, files in lib.corpus():
        with open(os.path.join(corpus_dir, name.replace("/", "_")), "wb") as f:
            f.write(files[root])
    secs = int(os.environ.get("VERIF_FUZZ_S", "420"))
    procs = []
    t0 = time.time()
    for k in range(8):
        logf = open(os.path.join(art, "log%d.txt" % k), "wb")
        procs.append((subprocess.Popen([binary, "-timeout=10", "-max_total_time=%d" % secs, "-max_len=4096", "-seed=%d" % (ctx.seed * 100 + k + 1),
                                        "-artifact_prefix=%s/i%d-" % (art, k), "-print_final_stats=1", corpus_dir],
                                       stdout=logf, stderr=subprocess.STDOUT, cwd=art), logf))
    execs = 0
    for pr, logf in procs:
        try:
            pr.wait(timeout=secs + 300)
        except subprocess.TimeoutExpired:
            pr.kill()
            ctx.count("fuzz-watchdog")
        logf.close()
    for k in range(8):
        try:
            with open(os.path.join(art, "log%d.txt" % k), "r", errors="replace") as f:
                m = re.findall(r"stat::number_of_executed_units:\s*(\d+)", f.read())
                execs += int(m[-1]) if m else 0
        except OSError:
            pass
    ctx.count("fuzz-executions", execs)
    ctx.count("fuzz-wall-s", int(time.time() - t0))
    ctx.monitor("u1-libfuzzer")
    ctx.evaluated(execs)
    worker = ctx.worker("rel")
    for fn in sorted(os.listdir(art)):
        if fn.startswith("log"):
            continue
        with open(os.path.join(art, fn), "rb") as f:
            data = f.read()
        job = lib.asm_job(lib.files_json({"main.asm": data, "inc.asm": "#d8 0x11\n"}), want=["msgs", "printed"])
        rec = worker.run(job)
        ctx.evaluated()
        ctx.count("fuzz-artifact:" + fn.split("-")[1] if "-" in fn else "fuzz-artifact")
        r = u1_library(ctx, job, rec)
        if r is not None and not fn.split("-")[1].startswith("timeout"):
            # the target's own assertion fired (U1 in-process) although the replay looks fine: report it as is
            ctx.violation("u1", {"kind": "libfuzzer-artifact-not-reproduced", "artifact": fn.split("-")[1]}, job, "no artifact", fn)


def replay(ctx, v):
    job = v["job"]
    if job.get("mode") == "process":
        files = {f[0]: (f[1] if isinstance(f[1], str) else bytes.fromhex(f[1]["h"])) for f in job["files"]}
        res = runner.run_cli(ctx.cli("rel"), job["argv"][1:], files, extra_dirs=job.get("extra_dirs", ()), cpu_s=10)
        print("replay: status=%s signal=%s created=%s" % (res["status"], res["signal"], sorted(res["created"])))
        print(res["stderr"][-600:])
        bad = res["signal"] is not None or res["status"] not in (0, 1) or \
            (res["status"] == 0 and "error:" in res["stderr"]) or (res["status"] == 1 and "error:" not in res["stderr"])
        if bad:
            ctx.violation(v["oracle"], v["sig"], job, v["expected"], {"status": res["status"], "signal": res["signal"]})
        return
    worker = ctx.worker("rel")
    rec = worker.run(job)
    if job.get("mode") == "drive":
        u1_driver(ctx, job, rec)
    else:
        u1_library(ctx, job, rec)
