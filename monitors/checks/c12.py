"""C12 - listings and symbol tables tell the truth about the output.

Cross-view consistency monitor: the annotated / tcgame / addrspan listings and the symbols /
mesen-mlb tables produced by the real formatter are parsed independently (model/listings.py) and
compared with the spans, output bits, symbol values and source files of the same assembly.
"""
import lib
from gen import banks as GB
from gen import isa as G
from gen import workload
from model import listings as L

SPEC = {
    "level": "exploration",
    "technique": "cross-view consistency monitor: independent parsers for every listing/symbol format checked against spans, output bits, symbol values and source text of the same run; row addresses recomputed from the bank table and label rows counted against the symbol table",
    "level_text": ("Exploration: generated programs (multi-bank, bit-granular, included files, nested labels, suppressed "
                   "constants, multi-byte characters in comments and strings) are formatted in 12 views per program - "
                   "annotated with every base 2..128 and group 1..9 (incl. wide groups), tcgame, addrspan, symbols, mesen-mlb - "
                   "and each row is tied to the real bit position, address, data bits and source excerpt; rows and items "
                   "must be in bijection in output order."),
    "level_note": ("Digits beyond an item's own size are unconstrained; addrspan may be uniformly 0- or 1-based; mesen-mlb "
                   "P: values are file offset - 16 (DESIGN section 8). Trusts model/listings.py."),
    "design_ref": "DESIGN.md section 5, C12",
    "budget_s": {"quick": 55, "thorough": 900},
    "needs": ["probe-rel"],
    "needs_thorough": ["probe-rel", "probe-chk"],
    "rule": ("programs from G_isa, G_casc, G_bank and include-wrapping variants x 12 views drawn from the parameter space, plus (8 %) label/constant trees under `#if` arms whose `symbols` table is compared with the lexically declared names; "
             "non-trivial = successful program with >= 3 items whose views were all checked; distinct = distinct (source, views)"),
    "monitors": ["annotated", "tcgame", "addrspan", "symbols", "mesen-mlb", "address-assigned-by-layout", "labels-listed-once", "symbols-vs-declared-names"],
    "min_nontrivial": {"quick": 500, "thorough": 10000},
    "assumptions": ["spans and symbol values of the record are the ground truth for 'the assembly'"],
}

BASES = [2, 4, 8, 16, 32, 64, 128]


def draw_views(rng):
    views = ["symbols", "mesen-mlb", "addrspan", "annotated", "tcgame"]
    for _ in range(5):
        views.append("annotated,base:%d,group:%d" % (rng.choice(BASES), rng.choice([1, 2, 3, 4, 5, 6, 7, 8, 9, 12, 24])))
    views.append("tcgame,base:%d,group:%d" % (rng.choice([2, 16]), rng.choice([1, 2, 3, 4, 8, 9, 16])))
    views.append(rng.choice(["annotatedhex", "annotatedbin", "tcgamebin"]))
    return views


def view_params(v):
    name = v.split(",")[0]
    base, group = 16, 2
    if name == "annotatedbin" or name == "tcgamebin":
        base, group = 2, 8
    for p in v.split(",")[1:]:
        k, val = p.split(":")
        if k == "base":
            base = int(val)
        elif k == "group":
            group = int(val)
    return name, base, group


def decorate_lines(rng, src):
    """Multi-byte characters on the *same line* as an item, before it (block comment) or inside it (a string element):
    listing locations are character columns, so every later column on that line shifts if bytes were counted."""
    head, sep, body = src.partition("\n\n")
    if not sep:
        return src
    out, depth = [], 0
    for line in body.split("\n"):
        t = line.strip()
        if t.startswith("#bankdef") or t.startswith("#ruledef") or t.startswith("#subruledef"):
            depth = 1
        elif depth and t == "}":
            depth = 0
            out.append(line)
            continue
        if depth or not t or t.startswith(";"):
            out.append(line)
            continue
        r = rng.random()
        if r < 0.2:
            line = rng.choice([";* \u00fc *; ", ";* \u4e2d\u6587 \U0001f600 *; ", ";*\u00e9*;"]) + line
        elif r < 0.3 and t.startswith("#d8 "):
            line = line.replace("#d8 ", '#d8 "\u00e9"[7:0], ', 1)
        out.append(line)
    return head + sep + "\n".join(out)


def wrap_with_include(rng, src):
    """Moves the program body into an included file (and adds multi-byte characters in comments)."""
    head, sep, body = src.partition("\n\n")
    if not sep:
        return {"main.asm": src}, ["main.asm"]
    deco = rng.choice(["; é comment ß\n", ";* 中文 😀 *;\n", ""])
    return {"main.asm": deco + head + "\n\n#include \"inc/body.asm\"\n", "inc/body.asm": deco + body}, ["main.asm"]


def assigned_address_ok(span, banks):
    """The address column of the listings comes from the span's recorded address; it must be the address the layout
    assigns: some bank b with an output window containing the item has addr_b + floor((offset - outp_b) / unit_b)."""
    o, size, addr = span[0], span[1], span[2]
    if o is None:
        return True
    a = -int(addr[1:], 16) if addr.startswith("-") else int(addr, 16)
    usable = banks[1:] if len(banks) > 1 else banks
    for b in usable:
        if b["outp"] is None or o < b["outp"]:
            continue
        p = o - b["outp"]
        if b["size"] is not None and p + size > b["size"]:
            continue
        a0 = -int(b["addr"][1:], 16) if b["addr"].startswith("-") else int(b["addr"], 16)
        if a == a0 + p // b["unit"]:
            return True
    return False


def judge(ctx, job, rec, files, views):
    spans = rec["out"]["spans"]
    n, v = lib.out_bits(rec)
    bits = lib.bits_str(n, v)
    fm = rec.get("formats") or {}
    good = True
    # every declared label is an item of the listings (with or without an output position): exactly one zero-sized
    # span at its declaration, carrying its final value - independent of the span list the listings are printed from
    labels = [sy for sy in (rec.get("syms") or []) if sy and sy.get("kind") == "label" and sy.get("span") and sy["value"]["k"] == "int"]
    if labels:
        ctx.monitor("labels-listed-once")
        index = {}
        for sp in spans:
            if sp[1] == 0:
                index.setdefault((sp[3], sp[4], sp[5]), []).append(sp[2])
        for sy in labels:
            got = index.get((sy["span"]["f"], sy["span"]["a"], sy["span"]["b"]), [])
            if len(got) != 1 or got[0] != sy["value"]["v"]:
                ctx.violation("listing", {"kind": "label-row-missing-or-repeated", "rows": min(len(got), 2),
                                          "label_in_bank_without_output": sy.get("bank") is not None and bool(rec.get("banks")) and
                                          (rec["banks"][sy["bank"]] or {}).get("outp") is None}, job,
                              {"label": sy["name"], "value": sy["value"]["v"], "rows": 1}, {"rows": got})
                good = False
                break
    banks = [b for b in rec.get("banks") or [] if b]
    if banks:
        ctx.monitor("address-assigned-by-layout")
        for sp in spans:
            if not assigned_address_ok(sp, banks):
                ctx.violation("listing", {"kind": "row-address-differs-from-layout", "negative_bank_address": any(b["addr"].startswith("-") for b in banks),
                                          "starts_inside_an_address_unit": True}, job,
                              "address = bank address + floor((offset - outp) / unit)", {"span": sp[:3], "banks": banks})
                good = False
                break
    for view in views:
        out = fm.get(view)
        name, base, group = view_params(view)
        kind = {"annotated": "annotated", "annotatedhex": "annotated", "annotatedbin": "annotated", "tcgame": "tcgame",
                "tcgamebin": "tcgame"}.get(name, name)
        ctx.monitor(kind)
        if out is None:
            ctx.violation("listing", {"kind": "view-missing", "view": name}, job, "present", None)
            good = False
            continue
        if "panic" in out:
            s = lib.panic_sig({"panic": out["panic"]})
            ctx.violation("listing", {"kind": "view-panic", "view": name, "msg": s["msg"][:40]}, job, "listing", out["panic"])
            good = False
            continue
        text = out.get("t")
        if text is None:
            text = bytes.fromhex(out["h"]).decode("utf8", "replace")
        try:
            if kind == "annotated":
                L.check_annotated(text, spans, files, bits, base, group)
            elif kind == "tcgame":
                L.check_annotated(text, spans, files, bits, base, group, tcgame=True)
            elif kind == "addrspan":
                L.check_addrspan(text, spans, files)
            elif kind == "symbols":
                L.check_symbols(text, rec["syms"])
            elif kind == "mesen-mlb":
                L.check_mesen(text, rec["syms"], rec["banks"])
        except L.Bad as e:
            why = str(e)
            import re
            ctx.violation("listing", {"kind": "view-disagrees", "view": kind, "why": re.sub(r"\d+", "N", why)[:48]}, job,
                          "listing agrees with spans/bits/symbols", {"view": view, "why": why[:300], "text": text[:500]})
            good = False
        except (IndexError, ValueError) as e:
            ctx.violation("listing", {"kind": "view-unparsable", "view": kind}, job, "parsable", {"view": view, "err": str(e)[:200], "text": text[:400]})
            good = False
    return good


def declared_names_case(ctx, rng, worker):
    """Symbol tables against the *declared* symbols, derived lexically from the source (not from the assembler's own
    symbol tree): global labels, nested labels and nested constants, each possibly inside an `#if` arm chosen by a
    top-level constant. A nested declaration belongs to the last global label of the selected world before it."""
    conds = [rng.random() < 0.6 for _ in range(3)]
    lines = ["c%d = %d" % (i, int(c)) for i, c in enumerate(conds)]
    want = {"c%d" % i: int(c) for i, c in enumerate(conds)}
    addr, cur, cur_wrapped, known = 0, None, False, False
    for k in range(rng.randint(4, 10)):
        kind = "G" if k == 0 else rng.choice(["G", "G", "N", "N", "K"])
        w = None if k == 0 or rng.random() < 0.5 else rng.randrange(3)
        live = w is None or conds[w]
        if kind == "G":
            body, name = ["g%d:" % k, "#d8 %d" % k], "g%d" % k
        elif kind == "N":
            body, name = [".n%d:" % k, "#d8 .n%d" % k], ".n%d" % k
        else:
            body, name = [".k%d = %d" % (k, k + 100)], ".k%d" % k
        lines += body if w is None else ["#if c%d != 0" % w, "{"] + ["    " + b for b in body] + ["}"]
        if not live:
            continue
        if kind == "G":
            cur, cur_wrapped = name, w is not None
            want[name] = addr
        else:
            if cur_wrapped and w is None:
                known = True      # KF-C16-reparent: the nested declaration was bound before the arm was spliced
            want[cur + name] = addr if kind == "N" else k + 100
        if kind != "K":
            addr += 1
    src = "\n".join(lines) + "\n"
    job = lib.asm_job({"main.asm": src}, want=["symbols"], formats=["symbols"])
    rec = worker.run(job)
    ctx.evaluated()
    if lib.abnormal(rec):
        ctx.excluded += 1
        return
    if known:
        ctx.count("declared-names:excluded-arm-label-followed-by-nested-declaration")
        return
    ctx.monitor("symbols-vs-declared-names")
    text = ((rec.get("formats") or {}).get("symbols") or {}).get("t") if lib.ok(rec) else None
    got = sorted(l for l in (text or "").split("\n") if l != "")
    exp = sorted("%s = 0x%x" % (n, v) for n, v in want.items())
    if got != exp:
        ctx.violation("listing", {"kind": "symbols-differ-from-declared", "accepted": lib.ok(rec)}, job,
                      {"symbols": exp}, {"symbols": got[:40], "msgs": lib.first_messages(rec)})
    elif len(want) >= 6:
        ctx.count("declared-names:agree")
        ctx.nontrivial_case(src.encode())


def shard(ctx):
    worker = ctx.worker("rel")
    chk = ctx.worker("chk") if ctx.tier == "thorough" else None
    i = ctx.shard
    while not ctx.out_of_time():
        rng = ctx.rng(i)
        i += ctx.nshards
        if rng.random() < 0.08:
            declared_names_case(ctx, rng, worker)
            continue
        r = rng.random()
        if r < 0.5:
            prog = G.gen_program(rng, cascade=rng.random() < 0.3, faults=False)
        else:
            prog = GB.gen_program(rng)
        if rng.random() < 0.3:
            # suppressed constants
            prog["items"].append(("raw", "#const(noemit) hidden1 = 0x55\n.sub = 2\nshown = hidden1 + 1\n"))
        if rng.random() < 0.25:
            prog["items"].append(("raw", "title = \"abc\"\n.len = 3\n.inner = 4\n..deep = 5\ndebugflag = false\n.level = 2\n#const(noemit) .quiet = 9\n.after = 7\n.here:\n..under:\n"))
        src = G.render(prog)
        if rng.random() < 0.4:
            src = decorate_lines(rng, src)
        if rng.random() < 0.35:
            files, roots = wrap_with_include(rng, src)
        else:
            files, roots = {"main.asm": src}, ["main.asm"]
        views = draw_views(rng)
        disk = dict(files)
        for fname, data in (prog.get("extra_files") or {}).items():
            disk[fname] = data
            disk["inc/" + fname] = data
        job = lib.asm_job(lib.files_json(disk), roots=roots, want=["symbols", "spans", "banks"], formats=views)
        rec = worker.run(job)
        ctx.evaluated()
        if lib.abnormal(rec):
            ctx.excluded += 1
            continue
        if not lib.ok(rec):
            ctx.count("program-rejected")
            continue
        if judge(ctx, job, rec, files, views):
            if len(rec["out"]["spans"]) >= 3:
                ctx.nontrivial_case((src + repr(views)).encode())
                ctx.sample({"views": views[:6], "items": len(rec["out"]["spans"]),
                            "annotated": (rec["formats"]["annotated"].get("t") or "")[:500]}, limit=1)
        if chk is not None and i % 5 == 0:
            rec2 = chk.run(job)
            ctx.evaluated()
            if lib.ok(rec2):
                judge(ctx, job, rec2, files, views)


def replay(ctx, v):
    worker = ctx.worker("rel")
    job = v["job"]
    rec = worker.run(job)
    if lib.ok(rec):
        files = {f[0]: (f[1] if isinstance(f[1], str) else bytes.fromhex(f[1]["h"])) for f in job["files"]}
        judge(ctx, job, rec, files, job.get("formats") or [])
