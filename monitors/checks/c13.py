"""C13 - diagnostics point at the fault.

U3: every located message of every run names an existing input file, a byte range inside it on
character boundaries, and the printed `--> file:line:col` equals the independently computed 1-based
line and character column. Single-fault injection: one fault of five kinds is inserted at every
position of a valid generated program (with includes and multi-byte characters before / on / after
the fault line); the first reported error must lie on the faulty line of the right file.
"""
import re

import lib
from gen import isa as G
from gen import mutate
from gen import workload
from checks.c08 import lib_digest

SPEC = {
    "level": "exploration",
    "technique": "invariant monitor over structured diagnostics (hook H1) and printed text of every run + single-fault injection with an independent line/column computation",
    "level_text": ("Exploration + fault injection: location validity (file, byte range, character boundaries, printed "
                   "line:column) is checked on every message of every run of the mixed workload including mutants with "
                   "non-ASCII characters; for valid generated programs one fault (unknown instruction, undefined symbol, "
                   "out-of-range operand, duplicate label, malformed directive) is injected at each line position in turn, "
                   "also inside included files, with multi-byte characters placed before, on and after the line."),
    "level_note": ("Needs hook H1 (message list accessor). The independent line/column computation is 10 lines of Python "
                   "over the file bytes. 'First error' = the first top-level message or any message nested in it."),
    "design_ref": "DESIGN.md sections 4 (U3) and 5 (C13)",
    "budget_s": {"quick": 60, "thorough": 1100},
    "needs": ["probe-rel"],
    "rule": ("U3 on all messages of jobs from every generator/corpus/mutants (+ non-ASCII insertions); fault injection: "
             "generated valid programs x 5 fault kinds x up to 12 line positions x decoration variants; non-trivial = "
             "injected-fault case whose first error was located and compared, or a U3 message located after a multi-byte "
             "character; distinct = distinct (source, fault kind, position)"),
    "monitors": ["u3-span-valid", "u3-printed-line-col", "fault-located"],
    "min_nontrivial": {"quick": 1500, "thorough": 30000},
    "assumptions": ["hook H1 exposes exactly the messages that are printed"],
}

ARROW = re.compile(r"^\s*--> (.*?)(?::(\d+):(\d+):)?$", re.M)


def file_bytes(files, name):
    c = files.get(name)
    if c is None:
        return None
    return c if isinstance(c, bytes) else c.encode("utf8")


def line_col_1based(data, idx):
    before = data[:idx].decode("utf8", "replace")
    line = before.count("\n") + 1
    col = len(before) - (before.rfind("\n") + 1) + 1
    return line, col


def is_boundary(data, idx):
    return idx == len(data) or (data[idx] & 0xC0) != 0x80


def flatten(msgs):
    out = []
    for m in msgs:
        out.append(m)
        out.extend(flatten(m.get("inner", [])))
    return out


def u3(ctx, job, rec, files, count_nontrivial=True):
    """Location validity of every message of a record. Returns number of located messages."""
    msgs = rec.get("msgs") or []
    flat = flatten(msgs)
    located = []
    multibyte_before = False
    for m in flat:
        sp = m.get("span")
        if not sp:
            continue
        ctx.monitor("u3-span-valid")
        if "bad_handle" in sp:
            ctx.violation("u3", {"kind": "span-names-unknown-file-handle"}, job, "existing file", sp)
            return 0
        data = file_bytes(files, sp["f"])
        if data is None and sp["f"].startswith("<std>"):
            located.append((m, sp, None))
            continue
        if data is None:
            ctx.violation("u3", {"kind": "span-names-nonexistent-file"}, job, "existing input file", sp)
            return 0
        if "a" not in sp:
            located.append((m, sp, None))
            continue
        a, b = sp["a"], sp["b"]
        if not (0 <= a <= b <= len(data)):
            ctx.violation("u3", {"kind": "span-out-of-file", "descr": m["descr"][:30]}, job, "0 <= start <= end <= len",
                          {"span": sp, "len": len(data), "descr": m["descr"]})
            return 0
        if not (is_boundary(data, a) and is_boundary(data, b)):
            ctx.violation("u3", {"kind": "span-not-on-char-boundary", "descr": re.sub(r"`[^`]*`", "`_`", m["descr"])[:30]}, job,
                          "character boundaries", {"span": sp, "descr": m["descr"]})
            return 0
        if any(x >= 0x80 for x in data[:a]):
            multibyte_before = True
        located.append((m, sp, data))
    pr = rec.get("printed") or {}
    if "panic" in pr:
        return 0      # owned by C03
    text = pr.get("text")
    if text is None:
        return len(located)
    arrows = ARROW.findall(text)
    ctx.monitor("u3-printed-line-col")
    if len(arrows) != len(located):
        ctx.violation("u3", {"kind": "printed-locations-count"}, job, {"located messages": len(located)}, {"arrows": len(arrows), "text": text[:600]})
        return 0
    for (m, sp, data), (fname, line, col) in zip(located, arrows):
        if fname != sp["f"]:
            ctx.violation("u3", {"kind": "printed-file-differs"}, job, sp["f"], fname)
            return 0
        if data is None or "a" not in sp:
            continue
        if not line:
            ctx.violation("u3", {"kind": "printed-location-missing"}, job, "line:col", text[:300])
            return 0
        want = line_col_1based(data, sp["a"])
        if (int(line), int(col)) != want:
            ctx.violation("u3", {"kind": "printed-line-col-wrong", "multibyte_before": any(x >= 0x80 for x in data[:sp["a"]])},
                          job, {"line": want[0], "col": want[1]}, {"line": int(line), "col": int(col), "descr": m["descr"]})
            return 0
    if multibyte_before and count_nontrivial:
        ctx.nontrivial_case(lib_digest({"files": {k: (v if isinstance(v, (str, bytes)) else "") for k, v in files.items()}}, "u3"))
    return len(located)


# ------------------------------------------------------------------------------------------
# single-fault injection
# ------------------------------------------------------------------------------------------

DECOR_COMMENTS = ["; é", "; ßß ñ", ";* 中 *;", "; 😀😀", ""]


def base_program(rng):
    prog = G.gen_program(rng, cascade=False, faults=False, n_items=rng.randint(4, 14))
    # a typed single-candidate rule for out-of-range faults and a label for duplicates
    prog["isa"]["rules"].append({"pat": [("lit", "zrange"), ("param", "v", ("u", 8))],
                                 "prod": G.concat([G.lit_sized(rng, 8, 0x99), ("var", 0, ["v"])]), "size": 16, "name": "rz"})
    return prog


def fault_line(rng, kind, prog):
    if kind == "unknown-instruction":
        return rng.choice(["qqzz 1, 2", "zzunknown", "frob x"])
    if kind == "undefined-symbol":
        return rng.choice(["#d8 undefined_sym_x", "zrange undefined_sym_x", "#d16 1, nothere + 1"])
    if kind == "out-of-range":
        return rng.choice(["zrange 256", "zrange -1", "#d8 256", "#d4 0x1f", "zrange 0x1ff", "zfn 16", "zfn -1"])
    if kind == "duplicate-label":
        return None
    if kind == "malformed-directive":
        return rng.choice(["#d8 1,, 2", "#res", "#d8 (1", "#align", "#addr )", "#nosuchdirective 1", "#d8 1 2", "#addr", "#d8", "zq_tmp =",
                           "#d8 1 +", "#d16 2 *", "#res", "#align"])
    raise ValueError(kind)


# a valid line of the same size for every faulty line that has one
VALID_TWIN = {"zfn 16": "zfn 6", "zfn -1": "zfn 1", "zrange 256": "zrange 25", "zrange -1": "zrange 1", "#d8 256": "#d8 25", "#d4 0x1f": "#d4 0xf", "zrange 0x1ff": "zrange 0x1f",
              "#d8 undefined_sym_x": "#d8 0", "zrange undefined_sym_x": "zrange 0", "#d16 1, nothere + 1": "#d16 1, 0 + 1"}
MISSING_OPERAND = ("#res", "#align", "#addr", "#d8", "zq_tmp =", "#d8 1 +", "#d16 2 *")


def next_can_start_expression(text, line_no):
    """Whether the first useful token after line `line_no` (1-based) of `text` can begin an expression: the listed
    finding KF-C13-missing-operand (the operand parser continues on the next line) only applies then. A line that
    starts with `#` or `}` - or the end of the file - cannot be swallowed as an operand."""
    rest = "\n".join(text.split("\n")[line_no:])
    rest = re.sub(r";\*.*?\*;", " ", rest, flags=re.S)
    for line in rest.split("\n"):
        t = line.split(";")[0].strip()
        if t:
            return t[0] not in "#})],=:*/%&|^<>?"
    return False


KINDS = ["unknown-instruction", "undefined-symbol", "out-of-range", "duplicate-label", "malformed-directive", "invalid-field"]


def inject(rng, prog, body_lines, kind, pos):
    """Returns (new body lines, index of the faulty line) or None."""
    lines = list(body_lines)
    if kind == "duplicate-label":
        labs = [(i, l) for i, l in enumerate(lines) if re.fullmatch(r"[A-Za-z_][A-Za-z0-9_]*:", l)]
        if not labs:
            return None
        i, l = rng.choice(labs)
        pos = rng.choice([p for p in insertion_points(lines) if p > i])
        # a duplicate global label placed right after local labels would re-parent nothing it matters for
        lines.insert(pos, l)
        return lines, pos
    if kind == "invalid-field":
        # a misspelled field inside a multi-line `#bankdef { }` body, never in first position
        blocks = []
        for i, l in enumerate(lines):
            if l.startswith("#bankdef") and i + 1 < len(lines) and lines[i + 1].strip() == "{":
                j = i + 2
                while j < len(lines) and lines[j].strip() != "}":
                    j += 1
                if j < len(lines) and j - (i + 2) >= 1:
                    blocks.append((i + 2, j))
        if not blocks:
            return None
        a, b = rng.choice(blocks)
        at = rng.randint(a + 1, b)
        lines.insert(at, "    " + rng.choice(["#sise 4", "#adr 0x10", "#fil", "#output 0", "#labelalgin 8", "#bit 8"]))
        return lines, at
    fl = fault_line(rng, kind, prog)
    lines.insert(pos, fl)
    return lines, pos


def insertion_points(lines):
    """Indices i such that a new line may be inserted before lines[i] (top level, not between a
    block header and its opening brace); len(lines) is always a point."""
    depth = 0
    pts = []
    for i, l in enumerate(lines):
        if depth == 0 and not l.lstrip().startswith("{"):
            pts.append(i)
        depth += l.count("{") - l.count("}")
    pts.append(len(lines))
    return pts


def decorate(rng, lines, fault_idx):
    """Multi-byte characters in comments / strings before, on and after the fault line."""
    out = list(lines)
    where = rng.sample(["before", "on", "after"], rng.randint(0, 3))
    if "on" in where:
        out[fault_idx] = out[fault_idx] + " " + rng.choice(DECOR_COMMENTS[:4])
        if rng.random() < 0.5:
            out[fault_idx] = ";* ü😀 *; " + out[fault_idx]
    shift = 0
    if "before" in where:
        pts = [p for p in insertion_points(out) if p <= fault_idx]
        k = rng.choice(pts)
        ins = rng.choice(["; é ß 中 😀", "#d \"é😀\"", ";* ñ\n   ö *;"])
        out.insert(k, ins)
        shift = 1
    if "after" in where:
        pts = [p for p in insertion_points(out) if p > fault_idx + shift]
        k = rng.choice(pts)
        out.insert(k, rng.choice(["; é", "#d \"中\""]))
    return out, fault_idx + shift, where


def fault_case(ctx, rng, worker):
    prog = base_program(rng)
    src = G.render(prog)
    head, sep, body = src.partition("\n\n")
    # an operand range enforced by an assert inside a user function that the rule's production calls
    head += "\n#fn zchk(v) =>\n{\n    assert(v >= 0 && v < 16, \"zfn operand\")\n    v`8\n}\n#ruledef\n{\n    zfn {v} => 0x98 @ zchk(v)\n}"
    src = head + sep + body
    body_lines = [l for l in body.split("\n")]
    while body_lines and body_lines[-1] == "":
        body_lines.pop()
    # only plain item lines are insertion points (not inside #bankdef { } blocks)
    points = insertion_points(body_lines)
    # base must assemble
    base_job = lib.asm_job({"main.asm": src}, want=["msgs"])
    base = worker.run(base_job)
    ctx.evaluated()
    if not lib.ok(base):
        ctx.count("base-not-valid")
        return
    use_include = rng.random() < 0.4
    positions = points if len(points) <= 12 else sorted(rng.sample(points, 12))
    for kind in KINDS:
        for pos in positions if kind not in ("duplicate-label", "invalid-field") else positions[:2]:
            r = inject(rng, prog, body_lines, kind, pos)
            if r is None:
                continue
            lines, fidx = r
            lines, fidx, where = decorate(rng, lines, fidx)
            # a decoration line may contain a newline (block comment): recompute the fault line number by text
            text_body = "\n".join(lines) + "\n"
            flat_lines = text_body.split("\n")
            fault_text = lines[fidx]
            line_no_in_body = sum(l.count("\n") + 1 for l in lines[:fidx]) + 1
            first_decl = next((k for k, l in enumerate(lines[:fidx]) if l == fault_text), None) if kind == "duplicate-label" else None
            if first_decl is not None and rng.random() < 0.5:
                # the two declarations live in different files: the original stays in the root file, the duplicate (the
                # fault) sits near the top of an included file, i.e. at a smaller byte offset than the original
                cut = rng.randint(first_decl + 1, fidx)
                main_part = "\n".join(lines[:cut]) + "\n"
                tail_part = "\n".join(lines[cut:]) + "\n"
                files = {"main.asm": head + "\n\n" + main_part + "#include \"sub/tail.asm\"\n", "sub/tail.asm": tail_part}
                ffile, fline = "sub/tail.asm", sum(l.count("\n") + 1 for l in lines[cut:fidx]) + 1
                use_include_here = True
                text_body = tail_part
                line_no_in_body = fline
                ctx.count("duplicate-across-files")
            elif use_include:
                files = {"main.asm": head + "\n\n#include \"sub/body.asm\"\n", "sub/body.asm": text_body}
                ffile, fline = "sub/body.asm", line_no_in_body
            else:
                files = {"main.asm": head + "\n\n" + text_body}
                ffile, fline = "main.asm", head.count("\n") + 2 + line_no_in_body
            job = lib.asm_job(lib.files_json(files), want=["msgs", "printed"])
            rec = worker.run(job)
            ctx.evaluated()
            if lib.abnormal(rec):
                ctx.excluded += 1
                continue
            u3(ctx, job, rec, files, count_nontrivial=False)
            substitute = VALID_TWIN.get(re.sub(r";\*.*?\*;", "", fault_text).split(";")[0].strip())
            if ffile != "sub/tail.asm" and (substitute is not None or
                                            any(l.lstrip().startswith("#d ") for k, l in enumerate(lines) if k != fidx and l not in body_lines)):
                # the fault line itself (it has a size) and a decoration that emits data move every later address: the same
                # program with a valid line of the same size in place of the fault must be valid, otherwise the case
                # contains a second, unintended fault (e.g. an operand that no longer fits the smallest encoding and makes
                # two rules tie), which may legitimately be reported first
                ctl_lines = [(substitute if k == fidx else l) for k, l in enumerate(lines) if k != fidx or substitute is not None]
                ctl_body = "\n".join(ctl_lines) + "\n"
                ctl_files = dict(files)
                ctl_files[ffile] = (head + "\n\n" + ctl_body) if not use_include else ctl_body
                ctl = worker.run(lib.asm_job(lib.files_json(ctl_files), want=[]))
                ctx.evaluated()
                if not lib.ok(ctl):
                    ctx.count("decoration-invalidates-the-base-program")
                    continue
            ctx.monitor("fault-located")
            if lib.ok(rec) or not rec.get("msgs"):
                bare0 = re.sub(r";\*.*?\*;", "", fault_text).split(";")[0].strip()
                ctx.violation("fault-location", {"kind": "fault-not-reported", "fault": kind,
                                                 "missing_operand_at_end_of_line": bare0 in MISSING_OPERAND,
                                                 "next_line_can_start_an_expression": next_can_start_expression(text_body, line_no_in_body)},
                              job, "an error", {"ok": lib.ok(rec), "fault_line_text": fault_text[:60]})
                continue
            first = flatten(rec["msgs"][:1])
            hit = False
            seen = []
            for m in first:
                sp = m.get("span")
                if m["kind"] != "error" or not sp or "a" not in sp:
                    continue
                data = file_bytes(files, sp["f"])
                if data is None:
                    continue
                l, c = line_col_1based(data, sp["a"])
                seen.append((sp["f"], l, m["descr"][:40]))
                if sp["f"] == ffile and l == fline:
                    hit = True
            if not hit:
                bare = re.sub(r";\*.*?\*;", "", fault_text).split(";")[0].strip()
                missing_operand = bare in MISSING_OPERAND
                on_following = any(f == ffile and l > fline for f, l, _ in seen)
                ctx.violation("fault-location", {"kind": "first-error-elsewhere", "fault": kind,
                                                 "missing_operand_at_end_of_line": missing_operand,
                                                 "next_line_can_start_an_expression": next_can_start_expression(text_body, line_no_in_body),
                                                 "reported_on_a_following_line": on_following}, job,
                              {"file": ffile, "line": fline, "fault_line_text": fault_text[:60]}, {"first_error_locations": seen[:4]})
            else:
                ctx.count("located:" + kind)
                ctx.nontrivial_case((src + kind + str(pos) + str(where)).encode())
                ctx.sample({"fault": kind, "file": ffile, "line": fline, "text": fault_text[:60], "multibyte": where,
                            "first_error": seen[:2]}, limit=2)


def shard(ctx):
    worker = ctx.worker("rel")
    i = ctx.shard
    while not ctx.out_of_time():
        rng = ctx.rng(i)
        i += ctx.nshards
        if rng.random() < 0.45:
            fault_case(ctx, rng, worker)
            continue
        w = workload.draw(rng, kinds=("mut", "isamut", "corpus", "casc"), weights=(5, 3, 2, 1))
        files = dict(w["files"])
        if rng.random() < 0.5:
            name = rng.choice(sorted(files))
            t = files[name]
            if isinstance(t, bytes):
                t = t.decode("utf8", "replace")
            # non-ASCII inside a comment line at a random line start, and sometimes raw
            ls = t.split("\n")
            k = rng.randrange(len(ls))
            ls.insert(k, rng.choice(["; é中😀", ";* ß *;", "#d \"é\""]))
            if rng.random() < 0.3:
                k2 = rng.randrange(len(ls))
                ls[k2] = ls[k2] + rng.choice(mutate.NONASCII)
            files[name] = "\n".join(ls)
        w2 = dict(w)
        w2["files"] = files
        job = workload.job_of(w2, want=["msgs", "printed"], opts={"iters": rng.choice([1, 3, 10])})
        rec = worker.run(job)
        ctx.evaluated()
        if lib.abnormal(rec):
            ctx.excluded += 1
            continue
        n = u3(ctx, job, rec, files)
        if n:
            ctx.count("u3-messages", n)


def replay(ctx, v):
    worker = ctx.worker("rel")
    job = v["job"]
    rec = worker.run(job)
    files = {f[0]: (f[1] if isinstance(f[1], str) else bytes.fromhex(f[1]["h"])) for f in job["files"]}
    u3(ctx, job, rec, files)
    exp = v.get("expected")
    if isinstance(exp, dict) and "line" in exp and "file" in exp and rec.get("msgs"):
        hit = False
        for m in flatten(rec["msgs"][:1]):
            sp = m.get("span")
            if sp and "a" in sp and sp["f"] == exp["file"]:
                if line_col_1based(file_bytes(files, sp["f"]), sp["a"])[0] == exp["line"]:
                    hit = True
        if not hit:
            ctx.violation(v["oracle"], v["sig"], job, exp, "first error elsewhere")
