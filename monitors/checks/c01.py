"""C01 - assembled bits equal the language definition (size-static programs).

Oracle: model/asm.py, a reference assembler over structured programs (token-level matcher, exact-count
priority, typed-argument ranges, smallest-unique-encoding rule, one-pass layout) with model/expr.py
as expression semantics. Every emitted bit and every symbol value is re-derived independently.
"""
import lib
from gen import isa as G
from gen import workload
from model import asm as A
from model import expr as M

SPEC = {
    "level": "translation_validation",
    "technique": "reference-model monitor (translation validation per program): generated instruction sets and programs assembled by the real library; bits, symbol values and accept/reject compared with an independent reference assembler",
    "level_text": ("Translation validation per generated program: for each (instruction set, program) pair the real "
                   "assembler's output bits, every symbol value and the accept/reject decision are compared with an "
                   "independently written reference assembler; expected-failure programs (one injected fault) must be "
                   "rejected with no output. Thousands (quick) to hundreds of thousands (thorough) of programs per run; "
                   "not a proof - reach is the generator's reach."),
    "level_note": ("Trusts monitors/model/asm.py + model/expr.py (Python, no code shared with customasm). The generator "
                   "constrains operand syntax so that token-level matching is exact (DESIGN 5/C01 guards); programs whose "
                   "instruction sizes turn out value-dependent are not judged here (C02)."),
    "design_ref": "DESIGN.md section 5, C01",
    "budget_s": {"quick": 50, "thorough": 900},
    "needs": ["probe-rel"],
    "needs_thorough": ["probe-rel", "probe-chk"],
    "rule": ("cases are generated (instruction set, program) pairs seeded by (VERIF_SEED, index): 2-12 rules with "
             "prefix-sharing mnemonics, literal/typed/untyped/sub-rule operands, wrappers, concatenated/sliced/le/"
             "pc-relative productions; programs with global/nested labels, forward refs, constants, #d of many widths, "
             "#res/#align/#addr, banks; non-trivial = judged program that assembled with >= 3 instructions and >= 1 "
             "symbol reference, or an injected-fault program whose rejection was confirmed; distinct = distinct source text"),
    "monitors": ["bits-equal-model", "symbols-equal-model", "accept-reject-equals-model", "rejected-has-no-output"],
    "min_nontrivial": {"quick": 300, "thorough": 20000},
    "assumptions": ["reference assembler is trusted", "operand syntax restricted to forms where token-level matching is exact"],
}


def count_refs(prog):
    n = 0
    for it in prog["items"]:
        if it[0] == "instr":
            for t in it[1]:
                if t[0] == "t" and len(t) > 2 and t[2] == "sym":
                    n += 1
                elif t[0] == "e" and "var" in repr(t[1]):
                    n += 1
        elif it[0] == "data":
            if "var" in repr(it[2]):
                n += 1
    return n


def model_value_json(v):
    return list(v) if v is not None else None


def judge(ctx, prog, src, rec, job, oracle_prefix=""):
    """Compares one record with the model. Returns 'ok'|'reject'|'skip'|'violation'."""
    res = A.assemble(prog)
    if res[0] == "unsupported":
        ctx.count("model-unsupported:" + res[1][:40])
        return "skip"
    if lib.abnormal(rec):
        ctx.excluded += 1
        ctx.count("abnormal:" + rec.get("outcome", "?"))
        return "skip"
    ctx.monitor("accept-reject-equals-model")
    if res[0] == "reject":
        ctx.monitor("rejected-has-no-output")
        if lib.ok(rec):
            ctx.violation("asm-model", {"kind": "accepted-but-rules-reject", "model": res[1]}, job,
                          {"reject": res[1], "detail": res[2]}, {"out": rec.get("out")})
            return "violation"
        if rec.get("has_output") or not rec.get("error"):
            ctx.violation("asm-model", {"kind": "reject-with-output"}, job, {"reject": res[1]},
                          {"error": rec.get("error"), "has_output": rec.get("has_output")})
            return "violation"
        ctx.count("reject:" + res[1])
        return "reject"
    _, length, value, syms, chosen = res
    if not lib.ok(rec):
        ctx.violation("asm-model", {"kind": "rejected-but-rules-accept"}, job,
                      {"len": length, "bits": hex(value)}, {"msgs": lib.first_messages(rec)})
        return "violation"
    ctx.monitor("bits-equal-model")
    got = lib.out_bits(rec)
    if got != (length, value):
        ctx.violation("asm-model", {"kind": "bits-differ"}, job, {"len": length, "bits": hex(value)},
                      {"len": got[0], "bits": hex(got[1])})
        return "violation"
    ctx.monitor("symbols-equal-model")
    table = lib.sym_table(rec)
    for name, v in syms.items():
        if v is None:
            continue
        s = table.get(name)
        if s is None:
            ctx.violation("asm-model", {"kind": "symbol-missing"}, job, {"name": name}, {"symbols": sorted(table)})
            return "violation"
        ov = s["value"]
        if v[0] == "int":
            if ov["k"] != "int" or lib.int_value(ov) != (v[1], v[2]):
                ctx.violation("asm-model", {"kind": "symbol-value-differs"}, job, {"name": name, "value": list(v)},
                              {"value": ov})
                return "violation"
        elif v[0] == "bool":
            if ov["k"] != "bool" or ov["v"] != v[1]:
                ctx.violation("asm-model", {"kind": "symbol-value-differs"}, job, {"name": name, "value": list(v)},
                              {"value": ov})
                return "violation"
    for name in chosen.values():
        ctx.count("rule-chosen")
    return "ok"


def features(ctx, prog):
    for r in prog["isa"]["rules"]:
        for el in r["pat"]:
            if el[0] == "param":
                ctx.count("operand:" + ("untyped" if el[2] is None else el[2][0] + "N"))
            elif el[0] == "sub":
                ctx.count("operand:subrule")
            elif el[0] == "lit" and el[1] in "()[]#":
                ctx.count("wrapper:" + el[1])
    for it in prog["items"]:
        ctx.count("item:" + it[0])


def shard(ctx):
    worker = ctx.worker("rel")
    chk = ctx.worker("chk") if ctx.tier == "thorough" else None
    i = ctx.shard
    while not ctx.out_of_time():
        rng = ctx.rng(i)
        i += ctx.nshards
        prog = G.gen_program(rng, cascade=False)
        src = G.render(prog, split=workload.random_split(rng, len(prog["isa"]["rules"])))
        job = lib.asm_job({"main.asm": src}, want=["symbols", "msgs"])
        rec = worker.run(job)
        ctx.evaluated()
        verdict = judge(ctx, prog, src, rec, job)
        if verdict in ("ok", "reject"):
            features(ctx, prog)
        if verdict == "ok":
            n_instr = sum(1 for it in prog["items"] if it[0] == "instr")
            if n_instr >= 3 and count_refs(prog) >= 1:
                ctx.nontrivial_case(src.encode())
                ctx.sample({"source": src[:1500], "bits": rec["out"]["hex"][:200], "model_agrees": True}, limit=1)
        elif verdict == "reject" and prog.get("fault"):
            ctx.nontrivial_case(src.encode())
            ctx.count("fault-confirmed:" + prog["fault"][0])
            ctx.sample({"source": src[:800], "fault": list(prog["fault"]), "rejected": True}, limit=1)
        if chk is not None and verdict in ("ok", "reject") and (i // ctx.nshards) % 3 == 0:
            rec2 = chk.run(job)
            ctx.evaluated()
            ctx.monitor("chk-profile-agrees")
            if lib.abnormal(rec2):
                ctx.violation("chk-twin", {"kind": "chk-abnormal", **lib.panic_sig(rec2)}, job, "same as release", rec2.get("panic"))
            elif lib.result_key(rec2) != lib.result_key(rec):
                ctx.violation("chk-twin", {"kind": "chk-differs"}, job, "same as release", "differs")


def replay(ctx, v):
    worker = ctx.worker("rel")
    rec = worker.run(v["job"])
    exp = v["expected"]
    if isinstance(exp, dict) and "bits" in exp:
        got = lib.out_bits(rec) if lib.ok(rec) else None
        if got is None or (got[0], hex(got[1])) != (exp["len"], exp["bits"]):
            ctx.violation(v["oracle"], v["sig"], v["job"], exp, {"got": got and [got[0], hex(got[1])], "msgs": lib.first_messages(rec)})
    elif isinstance(exp, dict) and "reject" in exp:
        if lib.ok(rec):
            ctx.violation(v["oracle"], v["sig"], v["job"], exp, {"out": rec.get("out")})
    else:
        print("replay: re-executed; ok=%s error=%s" % (lib.ok(rec), rec.get("error")))
