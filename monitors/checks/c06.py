"""C06 - output layout is safe: no overlap, nothing leaves its bank, gaps are zero.

U2: structural invariants over the emitted spans, bank definitions and bits of *every* successful
record (all generators, corpus, mutants). Plus the layout model (model/asm.py) on generated bank
configurations, which predicts accept/reject and the exact position of every item.
"""
import lib
from gen import banks as GB
from gen import isa as G
from gen import workload
from checks import c01
from checks.c08 import lib_digest
from model import asm as A

SPEC = {
    "level": "exploration",
    "technique": "structural invariant monitor over emitted spans/banks/bits of every successful run (all generators, corpus, mutants) + reference layout model on generated bank configurations",
    "level_text": ("Exploration: (a) the invariants of the statement (no intersecting items, every item inside the window and "
                   "address range of one bank at outp + (addr - addr_start) * unit + bit offset, zero gaps, exact output "
                   "length) are checked on every successful record of every generator, the corpus and its mutants; (b) "
                   "generated bank configurations (1-5 banks, units 1..32 bits, gaps, overlaps, fill, labelalign, any "
                   "definition order) with item sequences (re-entry, #res, #align, forward/backward #addr, zero-size items) are "
                   "compared with a reference layout model for accept/reject, bits and length."),
    "level_note": ("Invariants need no model (only the record); which bank an item was written in is inferred as 'some bank "
                   "that satisfies the position equation'. The layout model is model/asm.py (trusted)."),
    "design_ref": "DESIGN.md sections 4 (U2) and 5 (C06)",
    "budget_s": {"quick": 55, "thorough": 1100},
    "needs": ["probe-rel"],
    "needs_thorough": ["probe-rel", "probe-chk"],
    "rule": ("G_bank configurations + item sequences (model-checked) and jobs from all other generators/corpus/mutants "
             "(invariants only); non-trivial = successful run with >= 2 sized items, or a configuration the model rejects "
             "whose rejection was confirmed; distinct = distinct source"),
    "monitors": ["u2-no-overlap", "u2-inside-bank", "u2-gaps-zero", "u2-length", "layout-model"],
    "min_nontrivial": {"quick": 1500, "thorough": 30000},
    "assumptions": ["spans report every emitted item (hook-free: BitVec.spans is public)"],
}


def parse_addr(a):
    return -int(a[1:], 16) if a.startswith("-") else int(a, 16)


def u2(ctx, job, rec):
    """Layout invariants on one successful record. Returns True if all held."""
    out = rec["out"]
    if out.get("hex_omitted"):
        return None
    n, value = lib.out_bits(rec)
    spans = [(s[0], s[1], parse_addr(s[2])) for s in out["spans"]]
    banks = [b for b in rec.get("banks") or [] if b]
    custom = len(banks) > 1
    usable = banks[1:] if custom else banks
    good = True
    sized = sorted((o, s) for o, s, _ in spans if o is not None and s > 0)
    ctx.monitor("u2-no-overlap")
    for (o1, s1), (o2, s2) in zip(sized, sized[1:]):
        if o1 + s1 > o2:
            ctx.violation("u2", {"kind": "items-overlap"}, job, "disjoint items", {"a": [o1, s1], "b": [o2, s2]})
            good = False
            break
    ctx.monitor("u2-inside-bank")
    for (o, s, addr) in spans:
        if o is None:
            continue
        okb = False
        for b in usable:
            if b["outp"] is None:
                continue
            p = o - b["outp"]
            if p < 0:
                continue
            if b["size"] is not None and p + s > b["size"]:
                continue
            if addr == int(b["addr"], 16) + p // b["unit"] if not b["addr"].startswith("-") else addr == -int(b["addr"][1:], 16) + p // b["unit"]:
                okb = True
                break
        if not okb:
            ctx.violation("u2", {"kind": "item-outside-every-bank"}, job, "inside one bank's window at the right address",
                          {"span": [o, s, hex(addr)], "banks": usable})
            good = False
            break
    ctx.monitor("u2-gaps-zero")
    mask = 0
    for o, s in sized:
        if o + s <= n:
            mask |= ((1 << s) - 1) << (n - o - s)
        elif o < n:
            mask |= ((1 << (n - o)) - 1)
    if value & ~mask:
        ctx.violation("u2", {"kind": "nonzero-bit-outside-items"}, job, "zero gaps", {"len": n})
        good = False
    ctx.monitor("u2-length")
    want = max([o + s for o, s in sized] + [0])
    for b in usable:
        if b["fill"] and b["size"] is not None and b["outp"] is not None and b["size"] > 0:
            want = max(want, b["outp"] + b["size"])
    if n != want:
        last_item = max([o + s for o, s in sized] + [0])
        ctx.violation("u2", {"kind": "length", "fill_end_minus_len": (want - n) if want > n else "shorter-than-items" if n < last_item else "longer"},
                      job, {"len": want}, {"len": n})
        good = False
    return good


def shard(ctx):
    worker = ctx.worker("rel")
    chk = ctx.worker("chk") if ctx.tier == "thorough" else None
    i = ctx.shard
    while not ctx.out_of_time():
        rng = ctx.rng(i)
        i += ctx.nshards
        if rng.random() < 0.65:
            prog = GB.gen_program(rng)
            src = G.render(prog)
            job = lib.asm_job({"main.asm": src}, want=["symbols", "spans", "banks", "msgs"])
            rec = worker.run(job)
            ctx.evaluated()
            ctx.monitor("layout-model")
            verdict = c01.judge(ctx, prog, src, rec, job)
            if verdict == "ok":
                u2(ctx, job, rec)
                sized = [s for s in rec["out"]["spans"] if s[0] is not None and s[1] > 0]
                if len(sized) >= 2:
                    ctx.nontrivial_case(src.encode())
                    ctx.sample({"source": src[:900], "len": rec["out"]["len"], "spans": rec["out"]["spans"][:6]}, limit=1)
                for b in prog["banks"]:
                    ctx.count("bank-unit:%d" % b["unit"])
            elif verdict == "reject":
                ctx.nontrivial_case(src.encode())
            if chk is not None and i % 4 == 0:
                rec2 = chk.run(job)
                ctx.evaluated()
                if lib.abnormal(rec2):
                    ctx.violation("chk-twin", {"kind": "chk-abnormal", **lib.panic_sig(rec2)}, job, "same as release", rec2.get("panic"))
                elif lib.result_key(rec2) != lib.result_key(rec):
                    ctx.violation("chk-twin", {"kind": "chk-differs"}, job, "same as release", "differs")
        else:
            w = workload.draw(rng, kinds=("isa", "casc", "corpus", "mut", "isamut", "macro"), weights=(2, 2, 3, 4, 2, 2))
            job = workload.job_of(w, want=["spans", "banks"])
            rec = worker.run(job)
            ctx.evaluated()
            if lib.abnormal(rec):
                ctx.excluded += 1
                continue
            if lib.ok(rec):
                if u2(ctx, job, rec):
                    ctx.count("foreign-record-ok:" + w["kind"])
                    if len([s for s in rec["out"]["spans"] if s[0] is not None and s[1] > 0]) >= 2:
                        ctx.nontrivial_case(lib_digest(w, 0))


def replay(ctx, v):
    worker = ctx.worker("rel")
    job = dict(v["job"])
    job["want"] = ["symbols", "spans", "banks", "msgs"]
    rec = worker.run(job)
    if lib.ok(rec):
        u2(ctx, job, rec)
        if v["oracle"] == "asm-model" and isinstance(v["expected"], dict) and "reject" in v["expected"]:
            ctx.violation(v["oracle"], v["sig"], job, v["expected"], {"out": rec.get("out")})
    else:
        print("replay: assembly fails: %s" % lib.first_messages(rec))
        if v["oracle"] == "asm-model" and isinstance(v["expected"], dict) and "bits" in v["expected"]:
            ctx.violation(v["oracle"], v["sig"], job, v["expected"], lib.first_messages(rec))
