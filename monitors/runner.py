"""Runner for the customasm runtime monitors.

Builds the recorder (casm-probe) and the real CLI from /repo's current working tree, runs the
per-property check modules on a pool of worker processes, applies the verdict discipline
(violated / held / inconclusive, known findings), and writes evidence and replay files.
"""
import fcntl
import hashlib
import importlib
import json
import multiprocessing as mp
import os
import random
import resource
import select
import shutil
import signal
import subprocess
import sys
import tempfile
import time
import traceback

VERIF = os.path.dirname(os.path.dirname(os.path.abspath(__file__)))
REPO = os.environ.get("CASM_REPO", "/repo")
# The overrides below exist only for self-validation against seeded changes in scratch copies
# (tools/mutant_run.sh); registered checks never set them and always build from /repo.
TARGET = os.environ.get("VERIF_TARGET", os.path.join(VERIF, ".target"))
EVIDENCE = os.environ.get("VERIF_EVIDENCE", os.path.join(VERIF, "evidence"))
REPLAYS = os.environ.get("VERIF_REPLAYS", os.path.join(VERIF, "replays"))
HARNESS = os.environ.get("VERIF_HARNESS", os.path.join(VERIF, "harness"))
KNOWN = os.path.join(VERIF, "KNOWN_FINDINGS.jsonl")
GUARD = "hlorenzi_customasm_verif"
NCPU = int(os.environ.get("VERIF_JOBS", str(min(16, os.cpu_count() or 4))))

ENV_BASE = dict(os.environ)
ENV_BASE["CARGO_NET_OFFLINE"] = "true"
ENV_BASE["CASM_STD_DIR"] = os.path.join(REPO, "std")


# --------------------------------------------------------------------------------------------
# builds
# --------------------------------------------------------------------------------------------

def _run_build(cmd, env, cwd, log):
    t0 = time.time()
    p = subprocess.run(cmd, cwd=cwd, env=env, stdout=subprocess.PIPE, stderr=subprocess.STDOUT)
    with open(log, "wb") as f:
        f.write(p.stdout)
    return p.returncode, time.time() - t0, p.stdout.decode("utf8", "replace")


class BuildError(Exception):
    pass


def _locked(name):
    os.makedirs(TARGET, exist_ok=True)
    f = open(os.path.join(TARGET, name + ".lock"), "w")
    fcntl.flock(f, fcntl.LOCK_EX)
    return f


def build_probe(profile="rel"):
    """profile: 'rel' (release) or 'chk' (release + overflow checks + debug assertions)."""
    lock = _locked("probe-" + profile)
    try:
        env = dict(ENV_BASE)
        env["RUSTFLAGS"] = "--cfg " + GUARD
        tdir = os.path.join(TARGET, profile)
        env["CARGO_TARGET_DIR"] = tdir
        if profile == "chk":
            env["CARGO_PROFILE_RELEASE_OVERFLOW_CHECKS"] = "true"
            env["CARGO_PROFILE_RELEASE_DEBUG_ASSERTIONS"] = "true"
        rc, dt, out = _run_build(
            ["cargo", "build", "--release", "--offline", "--bin", "casm-probe"],
            env, HARNESS, os.path.join(TARGET, "build-probe-%s.log" % profile))
        if rc != 0:
            raise BuildError("probe build (%s) failed:\n%s" % (profile, out[-4000:]))
        return os.path.join(tdir, "release", "casm-probe")
    finally:
        lock.close()


def build_cli(profile="rel"):
    """The real customasm binary, guard OFF (exactly the shipped artefact); 'chk' adds overflow checks."""
    lock = _locked("cli-" + profile)
    try:
        env = dict(ENV_BASE)
        env.pop("RUSTFLAGS", None)
        tdir = os.path.join(TARGET, "cli-" + profile)
        env["CARGO_TARGET_DIR"] = tdir
        if profile == "chk":
            env["CARGO_PROFILE_RELEASE_OVERFLOW_CHECKS"] = "true"
            env["CARGO_PROFILE_RELEASE_DEBUG_ASSERTIONS"] = "true"
        rc, dt, out = _run_build(
            ["cargo", "build", "--release", "--offline", "--bin", "customasm"],
            env, REPO, os.path.join(TARGET, "build-cli-%s.log" % profile))
        if rc != 0:
            raise BuildError("cli build (%s) failed:\n%s" % (profile, out[-4000:]))
        return os.path.join(tdir, "release", "customasm")
    finally:
        lock.close()


# --------------------------------------------------------------------------------------------
# probe worker
# --------------------------------------------------------------------------------------------

def _cpu_seconds(pid):
    try:
        with open("/proc/%d/stat" % pid) as f:
            parts = f.read().rsplit(")", 1)[1].split()
        tick = os.sysconf("SC_CLK_TCK")
        return (int(parts[11]) + int(parts[12])) / tick
    except Exception:
        return None


def _limits(as_gib):
    def f():
        lim = as_gib * 1024 ** 3
        resource.setrlimit(resource.RLIMIT_AS, (lim, lim))
        resource.setrlimit(resource.RLIMIT_CORE, (0, 0))
    return f


class Worker:
    """One casm-probe process. run(job) returns the observation record, or a synthetic record
    {'outcome': 'crash'|'cpu-timeout'|'wall-timeout', ...} if the worker died or overran."""

    def __init__(self, binary, cpu_budget=10.0, wall_budget=90.0, as_gib=8):
        self.binary = binary
        self.cpu_budget = cpu_budget
        self.wall_budget = wall_budget
        self.as_gib = as_gib
        self.proc = None
        self.jobs_run = 0
        self.restarts = 0
        self._start()

    def _start(self):
        r, w = os.pipe()
        self.errf = tempfile.TemporaryFile()
        self.proc = subprocess.Popen(
            [self.binary, "--out-fd", str(w)],
            stdin=subprocess.PIPE, stdout=subprocess.DEVNULL, stderr=self.errf,
            pass_fds=(w,), preexec_fn=_limits(self.as_gib), cwd=tempfile.gettempdir())
        os.close(w)
        self.rfd = r
        self.buf = b""

    def close(self):
        if self.proc is not None:
            try:
                self.proc.stdin.close()
            except Exception:
                pass
            try:
                self.proc.kill()
            except Exception:
                pass
            self.proc.wait()
            os.close(self.rfd)
            self.errf.close()
            self.proc = None

    def _restart(self):
        self.close()
        self.restarts += 1
        self._start()

    def _stderr_tail(self):
        try:
            self.errf.seek(0)
            return self.errf.read()[-600:].decode("utf8", "replace")
        except Exception:
            return ""

    def run(self, job):
        line = (json.dumps(job) + "\n").encode("utf8")
        try:
            self.proc.stdin.write(line)
            self.proc.stdin.flush()
        except (BrokenPipeError, OSError):
            self._restart()
            self.proc.stdin.write(line)
            self.proc.stdin.flush()
        self.jobs_run += 1
        t0 = time.time()
        cpu0 = _cpu_seconds(self.proc.pid) or 0.0
        chunks = [self.buf]
        self.buf = b""
        total = len(chunks[0])
        while True:
            nl = chunks[-1].find(b"\n")
            if nl >= 0:
                last = chunks.pop()
                rec = b"".join(chunks) + last[:nl]
                self.buf = last[nl + 1:]
                if total > MAX_RECORD_BYTES:
                    return {"id": job.get("id"), "outcome": "oversized-record", "bytes": total}
                try:
                    return json.loads(rec)
                except Exception as e:
                    return {"id": job.get("id"), "outcome": "harness_error", "harness_error": "bad record: %s" % e}
            ready, _, _ = select.select([self.rfd], [], [], 0.5)
            if ready:
                chunk = os.read(self.rfd, 1 << 20)
                if chunk:
                    if total > MAX_RECORD_BYTES:
                        # keep draining without storing (a record this large is never judged)
                        chunks = [chunk if b"\n" in chunk else b""]
                    else:
                        chunks.append(chunk)
                    total += len(chunk)
                    continue
                # EOF: worker died
                self.proc.wait()
                rc = self.proc.returncode
                tail = self._stderr_tail()
                self._restart()
                return {"id": job.get("id"), "outcome": "crash", "signal": -rc if rc < 0 else None,
                        "exit": rc, "stderr": tail}
            cpu = (_cpu_seconds(self.proc.pid) or 0.0) - cpu0
            if cpu > self.cpu_budget:
                self._restart()
                return {"id": job.get("id"), "outcome": "cpu-timeout", "cpu_s": cpu}
            if time.time() - t0 > self.wall_budget:
                self._restart()
                return {"id": job.get("id"), "outcome": "wall-timeout", "cpu_s": cpu}


MAX_RECORD_BYTES = 64 << 20
ABNORMAL = ("panic", "crash", "cpu-timeout", "wall-timeout", "harness_error", "oversized-record")


def abnormal(rec):
    """True if the record is an abnormal end (owned by C03/C19, excluded elsewhere)."""
    if rec.get("outcome") in ABNORMAL:
        return True
    if rec.get("outcome") == "multi":
        return any(abnormal(r) for r in rec.get("records", []))
    return False


# --------------------------------------------------------------------------------------------
# real binary
# --------------------------------------------------------------------------------------------

def run_cli(binary, argv, files, cwd=None, cpu_s=20, as_gib=4, wall_s=120, stack_mb=8, keep=False,
            strace=False, extra_dirs=(), fsize=1 << 30):
    """Runs the real customasm binary in a fresh scratch directory. `files` maps relative path ->
    bytes/str. Returns dict(status, signal, stdout, stderr, created{path:bytes}, cpu_s, maxrss_kb,
    wall_timeout)."""
    scratch = tempfile.mkdtemp(prefix="casm-cli-")
    try:
        work = os.path.join(scratch, "w")
        os.makedirs(work)
        for d in extra_dirs:
            os.makedirs(os.path.join(work, d), exist_ok=True)
        for name, content in files.items():
            p = os.path.join(work, name)
            os.makedirs(os.path.dirname(p), exist_ok=True)
            with open(p, "wb") as f:
                f.write(content if isinstance(content, bytes) else content.encode("utf8"))
        before = _snapshot(work)

        def pre():
            resource.setrlimit(resource.RLIMIT_CPU, (cpu_s, cpu_s + 1))
            lim = as_gib * 1024 ** 3
            resource.setrlimit(resource.RLIMIT_AS, (lim, lim))
            resource.setrlimit(resource.RLIMIT_STACK, (stack_mb * 1024 * 1024, stack_mb * 1024 * 1024))
            resource.setrlimit(resource.RLIMIT_CORE, (0, 0))
            resource.setrlimit(resource.RLIMIT_FSIZE, (fsize, fsize))
            if fsize < (1 << 30):
                # a write beyond the limit then fails with EFBIG instead of killing the process (SIG_IGN survives exec)
                signal.signal(signal.SIGXFSZ, signal.SIG_IGN)

        cmd = [binary] + list(argv)
        trace_path = None
        if strace:
            trace_path = os.path.join(scratch, "trace.txt")
            cmd = ["strace", "-f", "-qq", "-e", "trace=%file", "-o", trace_path] + cmd
        t0 = time.time()
        ru0 = resource.getrusage(resource.RUSAGE_CHILDREN)
        p = subprocess.Popen(cmd, cwd=cwd or work, stdout=subprocess.PIPE, stderr=subprocess.PIPE,
                             stdin=subprocess.DEVNULL, preexec_fn=pre)
        wall_timeout = False
        try:
            out, err = p.communicate(timeout=wall_s)
        except subprocess.TimeoutExpired:
            p.kill()
            out, err = p.communicate()
            wall_timeout = True
        ru1 = resource.getrusage(resource.RUSAGE_CHILDREN)
        rc = p.returncode
        after = _snapshot(work)
        created = {k: v for k, v in after.items() if before.get(k) != v}
        res = {
            "status": rc if rc >= 0 else None,
            "signal": -rc if rc < 0 else None,
            "stdout": out.decode("utf8", "replace"),
            "stderr": err.decode("utf8", "replace"),
            "created": created,
            "cpu_s": (ru1.ru_utime + ru1.ru_stime) - (ru0.ru_utime + ru0.ru_stime),
            "wall_s": time.time() - t0,
            "maxrss_kb": ru1.ru_maxrss,
            "wall_timeout": wall_timeout,
            "workdir": work,
        }
        if trace_path and os.path.exists(trace_path):
            with open(trace_path, "r", errors="replace") as f:
                res["strace"] = f.read()
        return res
    finally:
        if not keep:
            shutil.rmtree(scratch, ignore_errors=True)


def _snapshot(root):
    snap = {}
    for d, _, fs in os.walk(root):
        for f in fs:
            p = os.path.join(d, f)
            try:
                with open(p, "rb") as fh:
                    snap[os.path.relpath(p, root)] = fh.read()
            except Exception:
                snap[os.path.relpath(p, root)] = None
    return snap


# --------------------------------------------------------------------------------------------
# deterministic randomness
# --------------------------------------------------------------------------------------------

def rng_for(seed, prop, index, salt=""):
    h = hashlib.sha256(("%d|%s|%d|%s" % (seed, prop, index, salt)).encode()).digest()
    return random.Random(int.from_bytes(h[:8], "big"))


def digest(obj):
    return hashlib.sha256(json.dumps(obj, sort_keys=True, default=str).encode()).digest()[:8]


# --------------------------------------------------------------------------------------------
# shard context
# --------------------------------------------------------------------------------------------

class Ctx:
    """Handed to a check's shard function (one per worker process)."""

    def __init__(self, prop, tier, seed, shard, nshards, binaries, deadline, params=None):
        self.prop = prop
        self.tier = tier
        self.seed = seed
        self.shard = shard
        self.nshards = nshards
        self.binaries = binaries
        self.deadline = deadline
        self.params = params or {}
        self.workers = {}
        self.evaluations = 0
        self.nontrivial = set()
        self.violations = []
        self.counters = {}
        self.samples = []
        self.inconclusive = 0
        self.excluded = 0
        self.monitors = {}

    # -- workers
    def worker(self, profile="rel", **kw):
        key = (profile, tuple(sorted(kw.items())))
        if key not in self.workers:
            self.workers[key] = Worker(self.binaries["probe-" + profile], **kw)
        return self.workers[key]

    def cli(self, profile="rel"):
        return self.binaries["cli-" + profile]

    def close(self):
        for w in self.workers.values():
            w.close()

    # -- time
    def time_left(self):
        return self.deadline - time.time()

    def out_of_time(self):
        return time.time() > self.deadline

    def rng(self, index, salt=""):
        return rng_for(self.seed, self.prop, index, salt)

    def my_indices(self, n):
        """Indices of this shard among 0..n-1 (interleaved)."""
        return range(self.shard, n, self.nshards)

    # -- observations
    def count(self, key, n=1):
        self.counters[key] = self.counters.get(key, 0) + n

    def monitor(self, name, n=1):
        """A monitor (oracle) evaluated n times."""
        self.monitors[name] = self.monitors.get(name, 0) + n

    def evaluated(self, n=1):
        self.evaluations += n

    def nontrivial_case(self, key):
        self.nontrivial.add(key if isinstance(key, bytes) else digest(key))

    def sample(self, obj, limit=3):
        if len(self.samples) < limit:
            self.samples.append(obj)

    def violation(self, oracle, sig, job, expected, observed, note=""):
        """sig: dict of signature fields used for known-finding matching."""
        self.violations.append({
            "property": self.prop, "oracle": oracle, "sig": sig, "job": job,
            "expected": expected, "observed": observed, "note": note,
        })

    def result(self):
        viol = self.violations
        # bound the amount sent back; keep first 200 per signature-key
        seen = {}
        kept = []
        dropped = 0
        for v in viol:
            k = json.dumps([v["oracle"], v["sig"]], sort_keys=True, default=str)
            seen[k] = seen.get(k, 0) + 1
            if seen[k] <= 5:
                kept.append(v)
            else:
                dropped += 1
        return {
            "evaluations": self.evaluations,
            "nontrivial": self.nontrivial,
            "violations": kept,
            "violation_counts": seen,
            "counters": self.counters,
            "samples": self.samples,
            "inconclusive": self.inconclusive,
            "excluded": self.excluded,
            "monitors": self.monitors,
            "restarts": sum(w.restarts for w in self.workers.values()),
        }


def _shard_main(args):
    modname, prop, tier, seed, shard, nshards, binaries, deadline, params = args
    signal.signal(signal.SIGINT, signal.SIG_IGN)
    ctx = Ctx(prop, tier, seed, shard, nshards, binaries, deadline, params)
    try:
        mod = importlib.import_module(modname)
        mod.shard(ctx)
        res = ctx.result()
        res["error"] = None
    except Exception:
        res = ctx.result()
        res["error"] = traceback.format_exc()
    finally:
        ctx.close()
    return res


# --------------------------------------------------------------------------------------------
# known findings
# --------------------------------------------------------------------------------------------

def load_known():
    known, fixed = [], []
    if os.path.exists(KNOWN):
        with open(KNOWN) as f:
            for line in f:
                line = line.strip()
                if not line or line.startswith("#"):
                    continue
                if line.startswith("fixed:"):
                    fixed.append(line)
                    continue
                e = json.loads(line)
                if e.get("status") == "known":
                    known.append(e)
    return known, fixed


def match_known(v, known):
    """A violation matches a known finding iff the property agrees, the oracle agrees and every
    key of the finding's signature equals the violation's signature value for that key."""
    for e in known:
        if e["property"] != v["property"]:
            continue
        if e.get("oracle") and e["oracle"] != v["oracle"]:
            continue
        sig = e.get("signature", {})
        if all(v["sig"].get(k) == val for k, val in sig.items()):
            return e
    return None


# --------------------------------------------------------------------------------------------
# main driver for one check
# --------------------------------------------------------------------------------------------

def write_replay(prop, v):
    d = os.path.join(REPLAYS, prop)
    os.makedirs(d, exist_ok=True)
    blob = json.dumps(v, sort_keys=True, default=str, indent=1)
    name = hashlib.sha256(blob.encode()).hexdigest()[:16] + ".json"
    path = os.path.join(d, name)
    with open(path, "w") as f:
        f.write(blob)
    return path


def run_check(prop, tier, seed, replay=None):
    t0 = time.time()
    modname = "checks." + prop.lower()
    sys.path.insert(0, os.path.join(VERIF, "monitors"))
    mod = importlib.import_module(modname)
    spec = mod.SPEC
    needs = spec.get("needs", ["probe-rel"])
    if tier == "thorough":
        needs = list(dict.fromkeys(list(needs) + list(spec.get("needs_thorough", []))))

    binaries = {}
    try:
        for n in needs:
            kind, profile = n.split("-")
            binaries[n] = build_probe(profile) if kind == "probe" else build_cli(profile)
    except BuildError as e:
        print("INCONCLUSIVE property=%s build failed" % prop)
        print(str(e)[-3000:])
        return 2

    if replay:
        return _run_replay(mod, prop, tier, seed, binaries, replay)

    # replays of earlier runs of this property are stale by definition
    shutil.rmtree(os.path.join(REPLAYS, prop), ignore_errors=True)

    budget = spec["budget_s"][tier]
    if "VERIF_BUDGET_S" in os.environ:
        budget = float(os.environ["VERIF_BUDGET_S"])
    deadline = time.time() + budget
    nshards = spec.get("shards", NCPU)
    args = [(modname, prop, tier, seed, i, nshards, binaries, deadline, None) for i in range(nshards)]
    if nshards == 1:
        results = [_shard_main(args[0])]
    else:
        grace = float(os.environ.get("VERIF_GRACE_S", "240"))
        with mp.Pool(nshards) as pool:
            try:
                results = pool.map_async(_shard_main, args, chunksize=1).get(timeout=budget + grace)
            except mp.TimeoutError:
                pool.terminate()
                subprocess.run(["pkill", "-P", str(os.getpid())], stdout=subprocess.DEVNULL, stderr=subprocess.DEVNULL)
                print("INCONCLUSIVE property=%s overall watchdog fired after %.0fs (a shard did not return)" % (prop, budget + grace))
                return 2

    return _conclude(mod, prop, tier, seed, results, time.time() - t0)


def _run_replay(mod, prop, tier, seed, binaries, path):
    with open(path) as f:
        v = json.load(f)
    ctx = Ctx(prop, tier, seed, 0, 1, binaries, time.time() + 600, {"replay": v})
    try:
        mod.replay(ctx, v)
    finally:
        ctx.close()
    known, _ = load_known()
    rc = 0
    if not ctx.violations:
        print("replay: no violation reproduced (held)")
    for nv in ctx.violations:
        k = match_known(nv, known)
        if k:
            print("KNOWN-FINDING: property=%s %s" % (prop, k["what"]))
        else:
            print("VIOLATION property=%s replay=%s" % (prop, path))
            print("  oracle=%s sig=%s" % (nv["oracle"], json.dumps(nv["sig"], default=str)))
            rc = 1
    return rc


def _conclude(mod, prop, tier, seed, results, wall):
    spec = mod.SPEC
    errors = [r["error"] for r in results if r.get("error")]
    evaluations = sum(r["evaluations"] for r in results)
    nontrivial = set()
    for r in results:
        nontrivial |= r["nontrivial"]
    counters, monitors = {}, {}
    for r in results:
        for k, n in r["counters"].items():
            counters[k] = counters.get(k, 0) + n
        for k, n in r["monitors"].items():
            monitors[k] = monitors.get(k, 0) + n
    inconclusive = sum(r["inconclusive"] for r in results)
    excluded = sum(r["excluded"] for r in results)
    samples = []
    for r in results:
        for s in r["samples"]:
            if len(samples) < 4:
                samples.append(s)

    known, fixed = load_known()
    new_viol, known_hits = [], {}
    total_viol = 0
    for r in results:
        total_viol += sum(r["violation_counts"].values())
        for v in r["violations"]:
            k = match_known(v, known)
            if k:
                known_hits.setdefault(k["id"], [k, 0])
                known_hits[k["id"]][1] += 1
            else:
                new_viol.append(v)

    status = "held"
    rc = 0
    lines = []
    for kid, (k, n) in sorted(known_hits.items()):
        lines.append("KNOWN-FINDING: property=%s %s [%s, seen in %d recorded cases]" % (prop, k["what"], kid, n))
    replay_paths = []
    if new_viol:
        status = "violated"
        rc = 1
        seen = set()
        for v in new_viol:
            key = json.dumps([v["oracle"], v["sig"]], sort_keys=True, default=str)
            if key in seen:
                continue
            seen.add(key)
            p = write_replay(prop, v)
            replay_paths.append(p)
            lines.append("VIOLATION property=%s replay=%s" % (prop, p))
            lines.append("  oracle=%s sig=%s" % (v["oracle"], json.dumps(v["sig"], default=str)[:400]))
            lines.append("  expected=%s" % json.dumps(v["expected"], default=str)[:300])
            lines.append("  observed=%s" % json.dumps(v["observed"], default=str)[:300])
            if len(seen) >= 60:
                break

    min_nontrivial = spec.get("min_nontrivial", {}).get(tier, 2)
    required_monitors = spec.get("monitors", [])
    silent_monitors = [m for m in required_monitors if monitors.get(m, 0) == 0]
    inconclusive_reasons = []
    if errors:
        inconclusive_reasons.append("harness error in %d shard(s): %s" % (len(errors), errors[0][-1500:]))
    if len(nontrivial) < min_nontrivial:
        inconclusive_reasons.append("only %d distinct non-trivial cases (< %d)" % (len(nontrivial), min_nontrivial))
    if silent_monitors:
        inconclusive_reasons.append("monitors never evaluated: %s" % ",".join(silent_monitors))
    if evaluations and inconclusive > 0.02 * evaluations:
        inconclusive_reasons.append("%d of %d cases inconclusive (watchdog)" % (inconclusive, evaluations))
    if evaluations and excluded > 0.05 * evaluations and not spec.get("owns_abnormal"):
        inconclusive_reasons.append("%d of %d cases excluded for abnormal end" % (excluded, evaluations))
    if rc == 0 and inconclusive_reasons:
        status = "inconclusive"
        rc = 2

    coverage = {
        "evaluations": evaluations,
        "distinct_nontrivial": len(nontrivial),
        "rule": spec["rule"],
        "samples": samples if samples else [{"note": "no sample recorded"}],
        "monitors_evaluated": monitors,
        "observed": dict(sorted(counters.items())),
        "inconclusive_cases": inconclusive,
        "excluded_abnormal": excluded,
        "known_findings_seen": {kid: n for kid, (k, n) in known_hits.items()},
        "verdict": status,
    }
    if hasattr(mod, "finalize"):
        try:
            coverage.update(mod.finalize(tier, counters, monitors, len(nontrivial), evaluations) or {})
        except Exception:
            inconclusive_reasons.append("finalize failed: " + traceback.format_exc()[-500:])
    level = spec["level"]
    ev = {
        "property_id": prop,
        "tier": tier,
        "seed": seed,
        "level": level,
        "coverage": coverage,
        "assumptions": spec.get("assumptions", []),
        "wall_s": round(wall, 2),
        "violations": len(new_viol),
    }
    os.makedirs(EVIDENCE, exist_ok=True)
    with open(os.path.join(EVIDENCE, prop + ".json"), "w") as f:
        json.dump(ev, f, indent=1, sort_keys=True, default=str)
        f.write("\n")

    print("property=%s tier=%s seed=%d evaluations=%d distinct_nontrivial=%d violations_total=%d "
          "new=%d known_hits=%d inconclusive=%d excluded=%d wall=%.1fs verdict=%s" % (
              prop, tier, seed, evaluations, len(nontrivial), total_viol, len(new_viol),
              sum(n for _, n in known_hits.values()), inconclusive, excluded, wall, status))
    print("monitors: " + json.dumps(monitors, sort_keys=True))
    for ln in lines:
        print(ln)
    if status == "inconclusive":
        for r in inconclusive_reasons:
            print("INCONCLUSIVE property=%s %s" % (prop, r))
    return rc


def main(argv):
    if len(argv) >= 2 and argv[1] == "--setup":
        try:
            build_probe("rel")
            build_probe("chk")
            build_cli("rel")
            build_cli("chk")
        except BuildError as e:
            print(str(e))
            return 1
        print("setup ok")
        return 0
    if len(argv) == 2 and os.environ.get("VERIF_TIER") in ("quick", "thorough"):
        argv = argv + [os.environ["VERIF_TIER"]]
    if len(argv) < 3:
        print("usage: check <Cxx> quick|thorough | check <Cxx> --replay <file> | check --setup")
        return 2
    prop = argv[1].upper()
    seed = int(os.environ.get("VERIF_SEED", "1"))
    if argv[2] == "--replay":
        return run_check(prop, os.environ.get("VERIF_TIER", "quick"), seed, replay=argv[3])
    tier = argv[2]
    return run_check(prop, tier, seed)


if __name__ == "__main__":
    sys.exit(main(sys.argv))
