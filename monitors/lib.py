"""Small helpers shared by the check modules."""
import glob
import os

REPO = os.environ.get("CASM_REPO", "/repo")

WANT_ALL = ["symbols", "spans", "msgs", "trace", "printed", "banks"]


def asm_job(files, roots=None, want=None, opts=None, formats=None, std=False, **kw):
    job = {"mode": "asm", "files": [[n, c] for n, c in files.items()] if isinstance(files, dict) else files,
           "roots": roots or ["main.asm"], "want": want if want is not None else ["symbols", "msgs"]}
    if opts:
        job["opts"] = opts
    if formats:
        job["formats"] = formats
    if std:
        job["std"] = True
    job.update(kw)
    return job


def ok(rec):
    """Successful assembly (library level)."""
    return rec.get("outcome") == "done" and not rec.get("error") and rec.get("has_output")


def failed(rec):
    return rec.get("outcome") == "done" and bool(rec.get("error")) and not rec.get("has_output")


def out_bits(rec):
    """(length, integer value MSB-first) of the assembled output."""
    o = rec.get("out")
    if not o:
        return None
    n = o["len"]
    h = o["hex"]
    if n == 0:
        return (0, 0)
    v = int(h, 16) if h else 0
    pad = 4 * len(h) - n
    return (n, v >> pad)


def bits_str(n, v):
    return format(v, "0%db" % n) if n else ""


def sym_table(rec):
    """name -> value dict from the 'syms' part of a record."""
    t = {}
    for s in rec.get("syms") or []:
        if s is None:
            continue
        t[s["name"]] = s
    return t


def int_value(valj):
    """(value, size) from a JSON int value {'k':'int','v':hex,'s':size}."""
    v = valj["v"]
    neg = v.startswith("-")
    n = int(v[1:] if neg else v, 16)
    return (-n if neg else n, valj.get("s"))


def result_key(rec):
    """Canonical observable result of an assembly: (success flag, bits, symbol values)."""
    if rec.get("outcome") != "done":
        return ("abnormal", rec.get("outcome"))
    if ok(rec):
        syms = tuple((s["name"], s["kind"], repr(s["value"])) for s in (rec.get("syms") or []) if s)
        o = rec.get("out") or {}
        return ("ok", o.get("len"), o.get("hex"), syms)
    return ("fail",)


def first_messages(rec, n=3):
    out = []
    for m in (rec.get("msgs") or [])[:n]:
        out.append(m.get("descr"))
        for i in m.get("inner", [])[:2]:
            out.append(" + " + i.get("descr", ""))
    return out


def panic_sig(rec):
    """Normalised crash signature: file + message with numbers stripped."""
    import re
    p = rec.get("panic") or {}
    loc = p.get("loc", "?")
    f = loc.rsplit(":", 1)[0].replace(REPO + "/", "")
    msg = re.sub(r"`[^`]*`", "`_`", p.get("msg", ""))
    msg = re.sub(r"'[^']*'", "'_'", msg)
    msg = re.sub(r"\d+", "N", msg)
    msg = msg.split(" of `")[0]
    return {"file": f, "msg": msg[:60]}


_corpus_cache = None


def corpus():
    """List of (name, root, files{rel:bytes}) for every .asm under /repo/tests, /repo/examples and
    /repo/std. Files = everything under the parent directory of the root (as the repo's own test harness)."""
    global _corpus_cache
    if _corpus_cache is not None:
        return _corpus_cache
    items = []
    for base in ("tests", "examples"):
        root_dir = os.path.join(REPO, base)
        for path in sorted(glob.glob(os.path.join(root_dir, "**", "*.asm"), recursive=True)):
            parent = os.path.dirname(path)
            files = {}
            for d, _, fs in os.walk(parent):
                for f in fs:
                    p = os.path.join(d, f)
                    try:
                        with open(p, "rb") as fh:
                            files[os.path.relpath(p, parent)] = fh.read()
                    except Exception:
                        pass
            items.append((os.path.relpath(path, REPO), os.path.basename(path), files))
    _corpus_cache = items
    return items


def files_json(files):
    """files{name: bytes|str} -> job 'files' list, hex-encoding non-UTF-8 content."""
    out = []
    for n, c in files.items():
        if isinstance(c, bytes):
            try:
                out.append([n, c.decode("utf8")])
            except UnicodeDecodeError:
                out.append([n, {"h": c.hex()}])
        else:
            out.append([n, c])
    return out


ABNORMAL = ("panic", "crash", "cpu-timeout", "wall-timeout", "harness_error", "oversized-record")


def abnormal(rec):
    """True if the record is an abnormal end (owned by C03/C19, excluded elsewhere)."""
    if rec.get("outcome") in ABNORMAL:
        return True
    if rec.get("outcome") == "multi":
        return any(abnormal(r) for r in rec.get("records", []))
    return False


def glued_rule_trigger(files):
    """Trigger predicate of the known findings about blanks inside a rule's literal run (KF-C07-glued-token and
    its C02/C08 faces): some instruction line, with blanks removed, starts with the whole leading literal run
    (>= 2 characters) of some rule, although the line itself has a blank inside that run - e.g. `st x` against
    rule `stx`, `call q` against `callq`, `h a l t` against `halt`."""
    import re
    leads = set()
    texts = []
    for name, text in (files.items() if isinstance(files, dict) else files):
        if isinstance(text, bytes):
            text = text.decode("utf8", "replace")
        if not isinstance(text, str):
            continue
        texts.append(text)
        for m in re.finditer(r"#(?:sub)?ruledef[^{]*\{(.*?)\n\}", text, re.S):
            for line in m.group(1).split("\n"):
                if "=>" not in line:
                    continue
                lead = re.match(r"[^\s{]*", line.split("=>")[0].strip()).group(0).lower()
                if len(lead) >= 2:
                    leads.add(lead)
    if not leads:
        return False
    for text in texts:
        for line in text.split("\n"):
            s = line.split(";")[0].strip().lower()
            if not s or s.startswith("#") or "=>" in s:
                continue
            glued = re.sub(r"[ \t]+", "", s)
            for p in leads:
                if glued.startswith(p) and not s.startswith(p):
                    return True
    return False


def left_recursive_subrule(files):
    """Trigger predicate of KF-C19-subrule-left-recursion (and its C03 face): some `#subruledef` has an alternative
    whose pattern starts with a parameter of a sub-rule type from which the same `#subruledef` is reached again through
    leading parameters only (a cycle of any length, including `{x: me} ...` inside `#subruledef me`)."""
    import re
    edges = {}
    for name, text in (files.items() if isinstance(files, dict) else files):
        if isinstance(text, dict):
            try:
                text = bytes.fromhex(text.get("h", ""))
            except ValueError:
                continue
        if isinstance(text, bytes):
            text = text.decode("utf8", "replace")
        if not isinstance(text, str):
            continue
        for m in re.finditer(r"#subruledef[ \t]+([A-Za-z_][A-Za-z0-9_]*)[^{]*\{(.*?)\n\}", text, re.S):
            me = m.group(1)
            for line in m.group(2).split("\n"):
                lead = re.match(r"\s*\{\s*[A-Za-z_][A-Za-z0-9_]*\s*:\s*([A-Za-z_][A-Za-z0-9_]*)\s*\}", line)
                if lead and "=>" in line:
                    edges.setdefault(me, set()).add(lead.group(1))
    for start in edges:
        seen, todo = set(), [start]
        while todo:
            n = todo.pop()
            for t in edges.get(n, ()):
                if t == start:
                    return True
                if t not in seen:
                    seen.add(t)
                    todo.append(t)
    return False
