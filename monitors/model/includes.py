"""Independent model of customasm's path handling and include expansion (C14)."""


class PathError(Exception):
    pass


def navigate(current, rel):
    """Path named by `rel` when written inside file `current` (both '/'-separated project paths)."""
    if rel.startswith("<std>/"):
        return rel
    cur = current.replace("\\", "/")
    nav = rel.replace("\\", "/")
    if len(nav) >= 2 and nav[1] == ":":
        raise PathError("drive prefix")
    base = [] if nav.startswith("/") else cur.split("/")[:-1]
    comps = [c for c in nav.split("/") if c not in ("", ".")]
    if not comps:
        raise PathError("empty path")
    out = []
    for c in base + comps:
        if c == "..":
            if not out:
                raise PathError("leaves the project directory")
            out.pop()
        else:
            out.append(c)
    if not out:
        raise PathError("empty path")
    return "/".join(out)


class ExpandError(Exception):
    def __init__(self, kind):
        Exception.__init__(self, kind)
        self.kind = kind


def expand(files, root, extra_roots=()):
    """files: path -> {"items": [("mark", byte) | ("include", relpath)], "once": bool}.
    Returns (list of marker bytes in expansion order, ambiguous flag) or raises ExpandError.
    ambiguous = a cycle passes through a #once file (error and silent skip are both acceptable)."""
    out = []
    once = set()
    stack = []
    state = {"ambiguous": False}

    def visit(path):
        if path in once:
            return
        if path not in files:
            raise ExpandError("file not found")
        f = files[path]
        if f["once"]:
            once.add(path)
        for it in f["items"]:
            if it[0] == "mark":
                out.append(it[1])
            else:
                try:
                    target = navigate(path, it[1])
                except PathError:
                    raise ExpandError("bad path")
                if target in stack:
                    if any(files.get(p, {}).get("once") for p in stack[stack.index(target):] + [target]):
                        state["ambiguous"] = True
                    raise ExpandError("recursive inclusion")
                stack.append(target)
                visit(target)
                stack.pop()

    visit(root)
    for r in extra_roots:
        # further input files are assembled one after the other into the same program; `#once` is remembered across them
        del stack[:]
        visit(r)
    return out, state["ambiguous"]
