"""Independent reference semantics of customasm expressions over Python integers.

Expressions are tuples:
  ("int", value, size_or_None, text)      numeric literal, printed as `text`
  ("bool", b)
  ("str", value, text)                    string literal: decoded value, source text incl. quotes
  ("var", level, [names])                 symbol reference (level = number of leading dots)
  ("pc",)                                 `$`
  ("neg", e) ("not", e)
  ("bin", op, l, r)                       op in BINOPS
  ("tern", c, a, b)                       b may be None (no else branch)
  ("slice", e, hi, lo)                    e[hi:lo]
  ("sshort", e, n)                        e`n
  ("call", name, [args])
  ("par", e)                              explicit parentheses (kept by the printer)

Values are tuples: ("int", v, size|None) ("bool", b) ("str", text, enc) ("void",)
"""


class EvalError(Exception):
    """The language defines this operation as an error."""

    def __init__(self, kind):
        Exception.__init__(self, kind)
        self.kind = kind


class Decline(Exception):
    """The model refuses to predict (outside its domain, e.g. huge magnitudes)."""


MAX_BITS = 1 << 14   # the models stay far below customasm's own limit; C19 owns the rest

BINOPS = {
    "@": 3, "||": 4, "&&": 5,
    "==": 6, "!=": 6, "<": 6, "<=": 6, ">": 6, ">=": 6,
    "|": 7, "^": 8, "&": 9, "<<": 10, ">>": 10, "+": 11, "-": 11, "*": 12, "/": 12, "%": 12,
}
L_TERN, L_SLICE, L_SSHORT, L_UNARY, L_CALL, L_LEAF = 1, 13, 14, 15, 16, 17


def level(e):
    k = e[0]
    if k == "bin":
        return BINOPS[e[1]]
    if k == "tern":
        return L_TERN
    if k == "slice":
        return L_SLICE
    if k == "sshort":
        return L_SSHORT
    if k in ("neg", "not"):
        return L_UNARY
    if k == "call":
        return L_CALL
    return L_LEAF


# ------------------------------------------------------------------------------------------
# printing
# ------------------------------------------------------------------------------------------

def show(e, full=False):
    """Renders with the minimal parentheses the grammar needs, or (full=True) with every
    sub-expression parenthesised. Binary operators are always surrounded by blanks."""
    def p(x, need):
        s = show(x, full)
        if x[0] == "par":
            return s
        if full:
            if x[0] in ("int", "bool", "str", "var", "pc", "call"):
                return s
            return "(" + s + ")"
        if level(x) < need:
            return "(" + s + ")"
        return s

    k = e[0]
    if k == "int":
        return e[3]
    if k == "bool":
        return "true" if e[1] else "false"
    if k == "str":
        return e[2]
    if k == "var":
        return "." * e[1] + ".".join(e[2])
    if k == "pc":
        return "$"
    if k == "par":
        return "(" + show(e[1], full) + ")"
    if k == "incfile":
        # ("incfile", file name, value): an unsized integer read from a data file (the `+ 0` drops incbin's size)
        return '(incbin("%s") + 0)' % e[1]
    if k == "neg":
        return "-" + p(e[1], L_UNARY)
    if k == "not":
        return "!" + p(e[1], L_UNARY)
    if k == "bin":
        lv = BINOPS[e[1]]
        return p(e[2], lv) + " " + e[1] + " " + p(e[3], lv + 1)
    if k == "tern":
        s = p(e[1], 3) + " ? " + p(e[2], L_TERN if not full else 99)
        if e[3] is not None:
            s += " : " + p(e[3], L_TERN if not full else 99)
        return s
    if k == "slice":
        return p(e[1], L_SSHORT) + "[" + show(e[2], full) + ":" + show(e[3], full) + "]"
    if k == "sshort":
        n = e[2]
        ns = show(n, full)
        if n[0] not in ("int", "var", "par"):
            ns = "(" + ns + ")"
        return p(e[1], L_UNARY) + "`" + ns
    if k == "call":
        return e[1] + "(" + ", ".join(show(a, full) for a in e[2]) + ")"
    if k == "block":
        return "{ " + ", ".join(show(a, full) for a in e[1]) + " }"
    if k == "assign":
        return e[1] + " = " + show(e[2], full)
    raise ValueError(k)


# ------------------------------------------------------------------------------------------
# values
# ------------------------------------------------------------------------------------------

def bit_length_signed(v):
    """Minimal two's complement width of v (v < 0), unsigned width (v > 0), 1 for 0 -
    the width customasm calls min_size."""
    if v == 0:
        return 1
    if v < 0:
        return (v + 1).bit_length() + 1
    return v.bit_length()


def encode_string(text, enc):
    if enc == "utf8":
        return text.encode("utf8")
    if enc == "ascii":
        return bytes((ord(c) if ord(c) < 0x100 else 0) for c in text)
    if enc == "utf16be":
        return text.encode("utf-16-be")
    if enc == "utf16le":
        return text.encode("utf-16-le")
    if enc == "utf32be":
        return text.encode("utf-32-be")
    if enc == "utf32le":
        return text.encode("utf-32-le")
    raise ValueError(enc)


def str_to_int(text, enc):
    b = encode_string(text, enc)
    # customasm reads the bytes as a signed big-endian number (documented nowhere; see DESIGN 8)
    return ("int", int.from_bytes(b, "big", signed=True) if b else 0, 8 * len(b))


def as_int(v):
    if v[0] == "int":
        return v
    if v[0] == "str":
        return str_to_int(v[1], v[2])
    return None


def trunc_div(a, b):
    q = abs(a) // abs(b)
    return q if (a >= 0) == (b >= 0) else -q


def bits_of(v, hi, lo):
    """Bits [hi-1 .. lo] of the infinite two's complement representation of v."""
    n = hi - lo
    if n <= 0:
        return 0
    return (v >> lo) & ((1 << n) - 1)


def check_mag(v):
    if v.bit_length() > MAX_BITS:
        raise Decline("magnitude")
    return v


STRING_FNS = ("ascii", "utf8", "utf16be", "utf16le", "utf32be", "utf32le")


class Env:
    """Evaluation environment. Override sym/pc/call for symbol-aware models."""

    def __init__(self, locals_=None):
        self.locals = dict(locals_ or {})
        self.flags = set()
        self.lenient_empty_slice = False

    def sym(self, level, names):
        raise EvalError("unknown symbol")

    def pc(self):
        raise EvalError("no address")

    def user_call(self, name, args):
        raise EvalError("unknown function")


def ev(e, env):
    k = e[0]
    if k == "int":
        return ("int", e[1], e[2])
    if k == "bool":
        return ("bool", e[1])
    if k == "str":
        return ("str", e[1], "utf8")
    if k == "par":
        return ev(e[1], env)
    if k == "incfile":
        return ("int", e[2], None)
    if k == "pc":
        return ("int", env.pc(), None)
    if k == "var":
        if e[1] == 0 and len(e[2]) == 1 and e[2][0] in env.locals:
            return env.locals[e[2][0]]
        return env.sym(e[1], e[2])
    if k == "neg":
        v = ev(e[1], env)
        if v[0] == "int":
            return ("int", -v[1], None)
        raise EvalError("type")
    if k == "not":
        v = ev(e[1], env)
        if v[0] == "int":
            return ("int", ~v[1], None)
        if v[0] == "bool":
            return ("bool", not v[1])
        raise EvalError("type")
    if k == "bin":
        return ev_bin(e, env)
    if k == "tern":
        c = ev(e[1], env)
        if c[0] != "bool":
            raise EvalError("condition type")
        if c[1]:
            return ev(e[2], env)
        if e[3] is None:
            return ("void",)
        return ev(e[3], env)
    if k == "slice":
        x = as_int(ev(e[1], env))
        if x is None:
            raise EvalError("slice type")
        hi = ev(e[2], env)
        lo = ev(e[3], env)
        if hi[0] != "int" or lo[0] != "int" or hi[1] < 0 or lo[1] < 0:
            raise EvalError("slice bound")
        if hi[1] > MAX_BITS or lo[1] > MAX_BITS:
            raise Decline("slice magnitude")
        if hi[1] < lo[1]:
            if hi[1] == lo[1] - 1:
                # customasm accepts x[l-1:l] as an empty value (known finding KF-C05-empty-slice);
                # the flag lets the check recognise exactly that situation.
                env.flags.add("empty-slice")
                if env.lenient_empty_slice:
                    return ("int", 0, 0)
            raise EvalError("inverted slice")
        n = hi[1] + 1 - lo[1]
        return ("int", bits_of(x[1], hi[1] + 1, lo[1]), n)
    if k == "sshort":
        x = as_int(ev(e[1], env))
        if x is None:
            raise EvalError("slice type")
        n = ev(e[2], env)
        if n[0] != "int" or n[1] < 0:
            raise EvalError("slice bound")
        if n[1] > MAX_BITS:
            raise Decline("slice magnitude")
        return ("int", bits_of(x[1], n[1], 0), n[1])
    if k == "call":
        return ev_call(e, env)
    if k == "block":
        r = ("void",)
        for x in e[1]:
            r = ev(x, env)
        return r
    if k == "assign":
        env.locals[e[1]] = ev(e[2], env)
        return ("void",)
    raise ValueError(k)


def ev_bin(e, env):
    op = e[1]
    if op in ("&&", "||"):
        l = ev(e[2], env)
        if l[0] != "bool":
            raise EvalError("type")
        if op == "||" and l[1]:
            return l
        if op == "&&" and not l[1]:
            return l
        r = ev(e[3], env)
        if r[0] != "bool":
            raise EvalError("type")
        return r
    l = ev(e[2], env)
    r = ev(e[3], env)
    if l[0] == "bool" and r[0] == "bool":
        a, b = l[1], r[1]
        if op == "&":
            return ("bool", a and b)
        if op == "|":
            return ("bool", a or b)
        if op == "^":
            return ("bool", a != b)
        if op == "==":
            return ("bool", a == b)
        if op == "!=":
            return ("bool", a != b)
        raise EvalError("type")
    li, ri = as_int(l), as_int(r)
    if li is None or ri is None:
        raise EvalError("type")
    a, b = li[1], ri[1]
    if op == "+":
        return ("int", check_mag(a + b), None)
    if op == "-":
        return ("int", check_mag(a - b), None)
    if op == "*":
        return ("int", check_mag(a * b), None)
    if op == "/":
        if b == 0:
            raise EvalError("division by zero")
        return ("int", trunc_div(a, b), None)
    if op == "%":
        if b == 0:
            raise EvalError("modulo by zero")
        return ("int", a - b * trunc_div(a, b), None)
    if op == "<<":
        if b < 0:
            raise EvalError("negative shift")
        if b > MAX_BITS:
            raise Decline("shift magnitude")
        return ("int", check_mag(a << b), None)
    if op == ">>":
        if b < 0:
            raise EvalError("negative shift")
        if b > MAX_BITS:
            raise Decline("shift magnitude")
        return ("int", a >> b, None)
    if op == "&":
        return ("int", a & b, None)
    if op == "|":
        return ("int", a | b, None)
    if op == "^":
        return ("int", a ^ b, None)
    if op == "==":
        return ("bool", a == b)
    if op == "!=":
        return ("bool", a != b)
    if op == "<":
        return ("bool", a < b)
    if op == "<=":
        return ("bool", a <= b)
    if op == ">":
        return ("bool", a > b)
    if op == ">=":
        return ("bool", a >= b)
    if op == "@":
        if li[2] is None or ri[2] is None:
            raise EvalError("unsized concat")
        ls, rs = li[2], ri[2]
        v = (bits_of(a, ls, 0) << rs) | bits_of(b, rs, 0)
        return ("int", v, ls + rs)
    raise ValueError(op)


def ev_call(e, env):
    name = e[1]
    if name in env.locals:
        raise EvalError("not callable")
    args = [ev(a, env) for a in e[2]]
    if name == "le":
        if len(args) != 1:
            raise EvalError("arity")
        x = args[0]
        if x[0] != "int":
            raise EvalError("type")
        if x[2] is None:
            raise EvalError("unsized")
        if x[2] % 8 != 0:
            raise EvalError("le size")
        n = x[2] // 8
        b = bits_of(x[1], x[2], 0).to_bytes(n, "big") if n else b""
        return ("int", int.from_bytes(b[::-1], "big") if n else 0, x[2])
    if name == "sizeof":
        if len(args) != 1:
            raise EvalError("arity")
        x = as_int(args[0])
        if x is None:
            raise EvalError("type")
        if x[2] is None:
            raise EvalError("unsized")
        return ("int", x[2], None)
    if name == "strlen":
        if len(args) != 1:
            raise EvalError("arity")
        if args[0][0] != "str":
            raise EvalError("type")
        return ("int", len(args[0][1].encode("utf8")), None)
    if name in STRING_FNS:
        if len(args) != 1:
            raise EvalError("arity")
        if args[0][0] != "str":
            raise EvalError("type")
        return ("str", args[0][1], name)
    if name == "assert":
        if len(args) not in (1, 2):
            raise EvalError("arity")
        if args[0][0] != "bool":
            raise EvalError("type")
        if not args[0][1]:
            raise AssertFailed()
        return ("void",)
    return env.user_call(name, args)


class AssertFailed(Exception):
    """assert() evaluated to false: a failed constraint, not a hard error."""
