"""Independent decoders for customasm's binary-data output formats (C11).

Every decoder returns ("ok", bitstring) - the decoded bits as a str of 0/1 - or raises Bad(reason).
`granule` is the padding granule of the format in bits.
"""
import re


class Bad(Exception):
    pass


def pad(bits, granule):
    r = len(bits) % granule
    return bits + "0" * ((granule - r) % granule)


def bytes_to_bits(bs):
    return "".join(format(b, "08b") for b in bs)


def dec_binary(data):
    return bytes_to_bits(data)


def dec_binstr(text):
    if not re.fullmatch(r"[01]*", text):
        raise Bad("non-binary digit")
    return text


def dec_hexstr(text):
    if not re.fullmatch(r"[0-9a-f]*", text):
        raise Bad("non-hex digit")
    return "".join(format(int(c, 16), "04b") for c in text)


def dec_dump(text, digit_bits, bytes_per_line, total_len):
    """bindump / hexdump. Checks the address column, the cell structure and the `.` padding."""
    lines = text.split("\n")
    if lines and lines[-1] == "":
        lines.pop()
    bits = []
    ended = False
    digits_per_byte = 8 // digit_bits
    for li, line in enumerate(lines):
        parts = line.split("|")
        if len(parts) < 3:
            raise Bad("line %d: expected 3 columns" % li)
        addr = parts[0].strip()
        if int(addr, 16) != li * bytes_per_line:
            raise Bad("line %d: address %s" % (li, addr))
        cells = parts[1].split()
        if len(cells) != bytes_per_line:
            raise Bad("line %d: %d cells" % (li, len(cells)))
        for cell in cells:
            if len(cell) != digits_per_byte:
                raise Bad("cell width")
            for c in cell:
                if c == ".":
                    ended = True
                else:
                    if ended:
                        raise Bad("digit after padding")
                    v = int(c, 16 if digit_bits == 4 else 2)
                    bits.append(format(v, "0%db" % digit_bits))
    return "".join(bits)


def dec_mif(text):
    m = re.search(r"DEPTH = (\d+);", text)
    if not m:
        raise Bad("no DEPTH")
    depth = int(m.group(1))
    if "WIDTH = 8;" not in text or "ADDRESS_RADIX = HEX;" not in text or "DATA_RADIX = HEX;" not in text:
        raise Bad("header")
    body = text.split("BEGIN\n", 1)
    if len(body) != 2 or not body[1].endswith("END;"):
        raise Bad("BEGIN/END")
    rows = [l for l in body[1][:-4].split("\n") if l.strip()]
    out = []
    for i, row in enumerate(rows):
        m = re.fullmatch(r"\s*([0-9A-F]+): ([0-9A-F]{2});", row)
        if not m:
            raise Bad("row %r" % row)
        if int(m.group(1), 16) != i:
            raise Bad("address %s at row %d" % (m.group(1), i))
        out.append(int(m.group(2), 16))
    if depth != len(out):
        raise Bad("DEPTH %d but %d rows" % (depth, len(out)))
    return bytes_to_bits(out)


def dec_intelhex(text, unit):
    """Returns dict bit_offset -> byte, after checking record structure and checksums."""
    lines = text.split("\n")
    if not lines or lines[-1] != ":00000001FF":
        raise Bad("missing EOF record")
    mem = {}
    for ln in lines[:-1]:
        if not re.fullmatch(r":[0-9A-F]+", ln) or len(ln) % 2 == 0 or len(ln) < 11:
            raise Bad("record syntax %r" % ln[:40])
        raw = bytes.fromhex(ln[1:])
        n, ahi, alo, typ = raw[0], raw[1], raw[2], raw[3]
        if typ != 0:
            raise Bad("record type %d" % typ)
        if len(raw) != n + 5:
            raise Bad("length byte %d but %d data bytes" % (n, len(raw) - 5))
        if n == 0 or n > 32:
            raise Bad("record length %d" % n)
        if sum(raw) & 0xff != 0:
            raise Bad("checksum")
        addr = (ahi << 8) | alo
        for k in range(n):
            off = addr * unit + 8 * k
            if off in mem:
                raise Bad("byte at bit offset %d written twice" % off)
            mem[off] = raw[4 + k]
    return mem


def dec_separated(text, radix, sep):
    if text == "":
        return ""
    rows = text.split("\n")
    vals = []
    for ri, row in enumerate(rows):
        items = row.split(sep.strip()) if sep.strip() else row.split()
        items = [x.strip() for x in items]
        if ri < len(rows) - 1:
            # line break only after a separator following the 16th byte
            if sep.strip():
                if items[-1] != "":
                    raise Bad("row does not end with separator")
                items = items[:-1]
            if len(items) != 16:
                raise Bad("row of %d values" % len(items))
        for it in items:
            if radix == 16:
                if not re.fullmatch(r"0x[0-9a-f]{2}", it):
                    raise Bad("hex item %r" % it)
                vals.append(int(it, 16))
            else:
                if not re.fullmatch(r"\d{1,3}", it) or int(it) > 255 or (len(it) > 1 and it[0] == "0"):
                    raise Bad("dec item %r" % it)
                vals.append(int(it))
    return bytes_to_bits(vals)


def dec_c_array(text, radix):
    if not text.startswith("const unsigned char data[] = {\n") or not text.endswith("\n};"):
        raise Bad("frame")
    body = text[len("const unsigned char data[] = {\n"):-3]
    vals = []
    for row in body.split("\n"):
        m = re.match(r"\t/\* 0x([0-9a-f]+) \*/ ?(.*)$", row)
        if not m:
            raise Bad("row %r" % row[:40])
        if int(m.group(1), 16) != len(vals):
            raise Bad("address comment %s at byte %d" % (m.group(1), len(vals)))
        rest = m.group(2).strip()
        if rest == "":
            continue
        items = [x.strip() for x in rest.rstrip(",").split(",")]
        if len(items) > 16:
            raise Bad("row of %d" % len(items))
        for it in items:
            if radix == 16:
                if not re.fullmatch(r"0x[0-9a-f]{2}", it):
                    raise Bad("hex item %r" % it)
                vals.append(int(it, 16))
            else:
                if not re.fullmatch(r"\d{1,3}", it) or int(it) > 255:
                    raise Bad("dec item %r" % it)
                vals.append(int(it))
    return bytes_to_bits(vals)


def dec_logisim(text, chunk):
    if not text.startswith("v2.0 raw\n"):
        raise Bad("header")
    body = text[len("v2.0 raw\n"):]
    bits = []
    for tok in body.split():
        if not re.fullmatch(r"[0-9a-f]{%d}" % (chunk // 4), tok):
            raise Bad("chunk %r" % tok)
        bits.append(format(int(tok, 16), "0%db" % chunk))
    return "".join(bits)


FORMATS = ["binary", "binstr", "hexstr", "bindump", "hexdump", "mif", "intelhex", "intelhex,addr_unit:16",
           "intelhex,addr_unit:32", "deccomma", "hexcomma", "decspace", "hexspace", "decc", "hexc", "logisim8", "logisim16"]

GRANULE = {"binary": 8, "binstr": 1, "hexstr": 4, "bindump": 1, "hexdump": 4, "mif": 8, "deccomma": 8, "hexcomma": 8,
           "decspace": 8, "hexspace": 8, "decc": 8, "hexc": 8, "logisim8": 8, "logisim16": 16}


def decode(fmt, payload, total_len):
    """payload: str (text formats) or bytes (binary). Returns decoded bit string."""
    if fmt == "binary":
        return dec_binary(payload)
    if fmt == "binstr":
        return dec_binstr(payload)
    if fmt == "hexstr":
        return dec_hexstr(payload)
    if fmt == "bindump":
        return dec_dump(payload, 1, 8, total_len)
    if fmt == "hexdump":
        return dec_dump(payload, 4, 16, total_len)
    if fmt == "mif":
        return dec_mif(payload)
    if fmt == "deccomma":
        return dec_separated(payload, 10, ", ")
    if fmt == "hexcomma":
        return dec_separated(payload, 16, ", ")
    if fmt == "decspace":
        return dec_separated(payload, 10, " ")
    if fmt == "hexspace":
        return dec_separated(payload, 16, " ")
    if fmt == "decc":
        return dec_c_array(payload, 10)
    if fmt == "hexc":
        return dec_c_array(payload, 16)
    if fmt == "logisim8":
        return dec_logisim(payload, 8)
    if fmt == "logisim16":
        return dec_logisim(payload, 16)
    raise ValueError(fmt)
