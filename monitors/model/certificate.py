"""C02 certificate checker: validates the state customasm *claims* (final symbol values, per-item
output spans with offset/size/address, output bits) against the language rules, without deciding
which of several fixed points the assembler should have found.
"""
from model import asm as A
from model import expr as M


class Mismatch(Exception):
    def __init__(self, kind, detail):
        Exception.__init__(self, kind + ": " + str(detail))
        self.kind = kind
        self.detail = detail


class Cert(A.Assembler):
    def __init__(self, prog, claimed_syms, spans, out_len, out_val):
        A.Assembler.__init__(self, prog)
        self.claimed = claimed_syms      # full name -> value tuple
        self.spans = spans               # list of (offset|None, size, addr) in emission order
        self.out_len = out_len
        self.out_val = out_val
        self.instr_checked = 0
        self.labels_checked = 0
        self.value_dependent = 0

    def bits_at(self, offset, size):
        if size == 0:
            return 0
        if offset + size > self.out_len:
            # zero beyond the end
            pad = offset + size - self.out_len
            return ((self.out_val << pad) >> 0) & ((1 << size) - 1) if offset < self.out_len + size else 0
        return (self.out_val >> (self.out_len - offset - size)) & ((1 << size) - 1)

    def value_of(self, full):
        if full in self.claimed and self.claimed[full] is not None:
            return self.claimed[full]
        raise A.Unsupported("symbol without claimed value: " + full)

    def check(self):
        self.declare_all()
        # map spans to items in emission order
        it_spans = {}
        k = 0
        for idx, it in enumerate(self.items):
            if it[0] == "label" or it[0] == "instr":
                n = 1
            elif it[0] == "data":
                n = len(it[2])
            else:
                n = 0
            if k + n > len(self.spans):
                raise A.Unsupported("fewer spans than items")
            it_spans[idx] = self.spans[k:k + n]
            k += n
        if k != len(self.spans):
            raise A.Unsupported("more spans than items")

        cur = {0: 0}
        bank = 0
        names_to_bank = {b["name"]: i for i, b in enumerate(self.banks)}
        self.layout = [None] * len(self.items)
        for idx, it in enumerate(self.items):
            kind = it[0]
            b = self.banks[bank]
            if kind == "bankdef":
                bank = it[1] + 1
                cur.setdefault(bank, 0)
                self.layout[idx] = {"bank": bank, "pos": cur[bank], "size": 0}
                continue
            if kind == "bank":
                bank = names_to_bank[it[1]]
                cur.setdefault(bank, 0)
                self.layout[idx] = {"bank": bank, "pos": cur[bank], "size": 0}
                continue
            if kind == "label" and b.get("labelalign") and it[2] == 0:
                absbits = b["addr"] * b["unit"] + cur[bank]
                la = b["labelalign"]
                if absbits % la:
                    cur[bank] += la - absbits % la
            self.layout[idx] = {"bank": bank, "pos": cur[bank], "size": 0}
            pos = cur[bank]
            if kind == "label":
                full = ".".join(self.item_ctx[idx])
                (off, size, addr) = it_spans[idx][0]
                want_addr = self.address_at(idx)
                claimed = self.claimed.get(full)
                self.labels_checked += 1
                if claimed is None or claimed[0] != "int" or claimed[1] != want_addr:
                    raise Mismatch("label-value", {"label": full, "claimed": claimed, "address of what follows": want_addr})
                if addr != want_addr or (b["outp"] is not None and off != b["outp"] + pos):
                    raise Mismatch("label-span", {"label": full, "span": (off, addr), "expected": (b["outp"] + pos if b["outp"] is not None else None, want_addr)})
            elif kind == "instr":
                (off, size, addr) = it_spans[idx][0]
                if b["outp"] is None or off != b["outp"] + pos:
                    raise Mismatch("instr-position", {"item": idx, "span_offset": off, "expected": None if b["outp"] is None else b["outp"] + pos})
                if addr != b["addr"] + pos // b["unit"]:
                    raise Mismatch("instr-address", {"item": idx, "span_addr": addr, "expected": b["addr"] + pos // b["unit"]})
                self.layout[idx]["size"] = size
                cur[bank] += size
            elif kind == "data":
                p = pos
                for (off, size, addr) in it_spans[idx]:
                    if b["outp"] is None or off != b["outp"] + p:
                        raise Mismatch("data-position", {"item": idx, "span_offset": off, "expected": None if b["outp"] is None else b["outp"] + p})
                    p += size
                self.layout[idx]["size"] = p - pos
                cur[bank] = p
            elif kind == "res":
                n = self.eval_layout_operand(idx, it[1])
                cur[bank] += n * b["unit"]
            elif kind == "align":
                n = self.eval_layout_operand(idx, it[1])
                if n <= 0:
                    raise Mismatch("align", n)
                absbits = b["addr"] * b["unit"] + cur[bank]
                if absbits % n:
                    cur[bank] += n - absbits % n
            elif kind == "addr":
                a = self.eval_layout_operand(idx, it[1])
                cur[bank] = (a - b["addr"]) * b["unit"]
        # second walk: re-derive every instruction / data element / constant from the claimed values
        for idx, it in enumerate(self.items):
            kind = it[0]
            if kind == "const":
                full = ".".join(self.item_ctx[idx])
                env = A._Env(self, self.item_ctx[idx], idx)
                try:
                    v = M.ev(it[3], env)
                except A.Reject as e:
                    if e.kind == "misaligned address":
                        raise A.Unsupported("constant uses $ at a misaligned position")
                    raise
                c = self.claimed.get(full)
                if c is None or tuple(c) != tuple(v):
                    raise Mismatch("constant-value", {"name": full, "claimed": c, "recomputed": v})
            elif kind == "instr":
                (off, size, addr) = it_spans[idx][0]
                cands = self.instr_candidates(idx)
                if len(set(r["size"] for r, _, _ in cands)) > 1:
                    self.value_dependent += 1
                results = []
                for rule, bindings, _ in cands:
                    try:
                        loc = {name: self.eval_binding(idx, bnd) for name, bnd in bindings.items()}
                        v = self.eval_at(idx, rule["prod"], locals_=loc)
                    except (A.Failed, M.AssertFailed):
                        continue
                    vi = M.as_int(v)
                    if vi is None or vi[2] is None:
                        raise Mismatch("production", {"item": idx})
                    results.append((vi[2], M.bits_of(vi[1], vi[2], 0), rule["name"]))
                if not results:
                    raise Mismatch("no-candidate-holds", {"item": idx, "toks": render(it[1])})
                smallest = min(r[0] for r in results)
                best = [r for r in results if r[0] == smallest]
                if len(best) > 1:
                    raise Mismatch("ambiguous-smallest", {"item": idx, "rules": [r[2] for r in best]})
                if best[0][0] != size or best[0][1] != self.bits_at(off, size):
                    raise Mismatch("stale-encoding", {"item": idx, "instr": render(it[1]), "emitted": (size, hex(self.bits_at(off, size))),
                                                      "recomputed": (best[0][0], hex(best[0][1])), "rule": best[0][2]})
                self.instr_checked += 1
            elif kind == "data":
                w = it[1]
                pos = self.layout[idx]["pos"]
                for n, tree in enumerate(it[2]):
                    (off, size, addr) = it_spans[idx][n]
                    v = self.eval_at(idx, tree, pos_override=pos)
                    vi = M.as_int(v)
                    if vi is None:
                        raise Mismatch("data-type", idx)
                    width = w if w is not None else vi[2]
                    if width != size or M.bits_of(vi[1], size, 0) != self.bits_at(off, size):
                        raise Mismatch("stale-data", {"item": idx, "emitted": (size, hex(self.bits_at(off, size))),
                                                      "recomputed": (width, hex(M.bits_of(vi[1], size, 0)))})
                    pos += size
        return True


def render(toks):
    from gen import isa as G
    return G.render_instr(toks)


def check(prog, claimed_syms, spans, out_len, out_val):
    """Returns ("held", stats) | ("mismatch", kind, detail) | ("unsupported", why)."""
    c = Cert(prog, claimed_syms, spans, out_len, out_val)
    try:
        c.check()
        return ("held", {"instr": c.instr_checked, "labels": c.labels_checked, "value_dependent": c.value_dependent})
    except Mismatch as e:
        return ("mismatch", e.kind, e.detail)
    except A.Reject as e:
        return ("mismatch", "rules-reject:" + e.kind, str(e))
    except M.EvalError as e:
        return ("mismatch", "eval-error:" + e.kind, "")
    except (A.Unsupported, M.Decline) as e:
        return ("unsupported", str(e))
