"""Parsers / cross-checkers for the listing and symbol-table formats (C12)."""
import re


class Bad(Exception):
    pass


def digit_val(c):
    if "0" <= c <= "9":
        return ord(c) - 48
    return ord(c) - 87


def bits_per_digit(base):
    return bin(base - 1).count("1")


def excerpt_of(files, span):
    """Source bytes of a span [offset,size,addr,file,start,end]."""
    data = files[span[3]]
    if isinstance(data, str):
        data = data.encode("utf8")
    return data[span[4]:span[5]].decode("utf8", "replace")


def sorted_spans(spans):
    """Stable sort by offset, spans without output position first (as Option ordering)."""
    return sorted(spans, key=lambda s: (-1 if s[0] is None else s[0]))


def out_bit(bits, n, i):
    return bits[i] if i < n else "0"


def check_annotated(text, spans, files, bits, base, group, tcgame=False):
    """Checks an `annotated` / `tcgame` listing against spans, source files and output bits (a 0/1 string).
    Returns the number of rows checked."""
    bpd = bits_per_digit(base)
    bpg = bpd * group
    n = len(bits)
    pos = 0
    comment = "# " if tcgame else ""
    head = re.match((r"# " if tcgame else r"") + r" *outp \| +addr \| data \(base (\d+)\)\n\n", text)
    if not head or int(head.group(1)) != base:
        raise Bad("header")
    pos = head.end()
    rows = 0
    for sp in sorted_spans(spans):
        off, size, addr = sp[0], sp[1], sp[2]
        exc = excerpt_of(files, sp)
        if tcgame:
            m = re.compile(r"#  +([0-9a-f]+|--): *([0-9a-f]+|-) \| +(-?[0-9a-f]+) \n# ").match(text, pos)
        else:
            m = re.compile(r" +([0-9a-f]+|--): *([0-9a-f]+|-) \| +(-?[0-9a-f]+) \| ").match(text, pos)
        if not m:
            raise Bad("row %d: prefix not recognised at %r" % (rows, text[pos:pos + 60]))
        g, b, a = m.group(1), m.group(2), m.group(3)
        if off is None:
            if g != "--" or b != "-":
                raise Bad("row %d: item without output position shown at %s:%s" % (rows, g, b))
        else:
            if g == "--":
                raise Bad("row %d: position missing" % rows)
            if int(b, 16) >= bpg:
                raise Bad("row %d: bit offset %s not below group size %d" % (rows, b, bpg))
            shown = int(g, 16) * bpg + int(b, 16)
            if shown != off:
                raise Bad("row %d: listed position %s:%s = bit %d, item is at bit %d" % (rows, g, b, shown, off))
        if a != addr:
            raise Bad("row %d: address %s, item has %s" % (rows, a, addr))
        pos = m.end()
        ndig = (size + bpd - 1) // bpd

        def read_digits(pos):
            """digits grouped by `group`, groups separated by one blank (tcgame: each group prefixed)."""
            digs = []
            k = 0
            while k < ndig:
                if k % group == 0:
                    if k > 0:
                        if text[pos] != " ":
                            raise Bad("row %d: group separator" % rows)
                        pos += 1
                    if tcgame:
                        pre = "0b" if base == 2 else "0x"
                        if text[pos:pos + 2] != pre:
                            raise Bad("row %d: group prefix" % rows)
                        pos += 2
                c = text[pos]
                d = digit_val(c)
                if not (0 <= d < base):
                    raise Bad("row %d: digit %r" % (rows, c))
                digs.append(d)
                pos += 1
                k += 1
            return digs, pos

        if tcgame:
            if text[pos:pos + len(exc)] != exc:
                raise Bad("row %d: excerpt %r != source %r" % (rows, text[pos:pos + len(exc)][:40], exc[:40]))
            pos += len(exc)
            if text[pos] != "\n":
                raise Bad("row %d: after excerpt" % rows)
            pos += 1
            digs, pos = read_digits(pos)
            while pos < len(text) and text[pos] == " ":
                pos += 1
            if text[pos] != "\n":
                raise Bad("row %d: after digits" % rows)
            pos += 1
        else:
            digs, pos = read_digits(pos)
            while text[pos] == " ":
                pos += 1
            if text[pos:pos + 2] != "; ":
                raise Bad("row %d: expected '; excerpt' at %r" % (rows, text[pos:pos + 20]))
            pos += 2
            if text[pos:pos + len(exc)] != exc:
                raise Bad("row %d: excerpt %r != source %r" % (rows, text[pos:pos + len(exc)][:40], exc[:40]))
            pos += len(exc)
            if text[pos] != "\n":
                raise Bad("row %d: after excerpt" % rows)
            pos += 1
        if off is not None:
            shown_bits = "".join(format(d, "0%db" % bpd) for d in digs)
            real = "".join(out_bit(bits, n, off + i) for i in range(size))
            if shown_bits[:size] != real:
                raise Bad("row %d: data %s differs from output bits %s at bit %d" % (rows, shown_bits[:size][:40], real[:40], off))
        rows += 1
    if pos != len(text):
        raise Bad("trailing text after the last row: %r" % text[pos:pos + 60])
    return rows


def line_col(text, byte_index):
    """0-based line and character column of a byte index."""
    data = text.encode("utf8") if isinstance(text, str) else text
    before = data[:byte_index].decode("utf8", "replace")
    line = before.count("\n")
    col = len(before) - (before.rfind("\n") + 1)
    return line, col


def check_addrspan(text, spans, files):
    lines = text.split("\n")
    if not lines[0].startswith("; physical address : bit offset | logical address | file : line start"):
        raise Bad("header")
    rows = [l for l in lines[1:] if l != ""]
    sp_sorted = sorted_spans(spans)
    if len(rows) != len(sp_sorted):
        raise Bad("%d rows for %d items" % (len(rows), len(sp_sorted)))
    origin = None
    for k, (row, sp) in enumerate(zip(rows, sp_sorted)):
        parts = row.split(" | ")
        if len(parts) != 3:
            raise Bad("row %d columns" % k)
        off = sp[0]
        if off is None:
            if parts[0] != "-:-":
                raise Bad("row %d: position for an item without output" % k)
        else:
            by, bi = parts[0].split(":")
            if int(by, 16) * 8 + int(bi, 16) != off or int(bi, 16) >= 8:
                raise Bad("row %d: position %s, item at bit %d" % (k, parts[0], off))
        if parts[1] != sp[2]:
            raise Bad("row %d: address %s vs %s" % (k, parts[1], sp[2]))
        loc = parts[2].rsplit(":", 4)
        if len(loc) != 5:
            raise Bad("row %d: location %r" % (k, parts[2]))
        fname, l1, c1, l2, c2 = loc
        if fname != sp[3]:
            raise Bad("row %d: file %s vs %s" % (k, fname, sp[3]))
        el1, ec1 = line_col(files[sp[3]], sp[4])
        el2, ec2 = line_col(files[sp[3]], sp[5])
        got = (int(l1), int(c1), int(l2), int(c2))
        # uniformly 0-based or uniformly 1-based (DESIGN section 8): one constant origin per listing
        o = got[0] - el1
        if origin is None:
            origin = o
        if o not in (0, 1) or o != origin or got != (el1 + o, ec1 + o, el2 + o, ec2 + o):
            raise Bad("row %d: location %s, span is at line %d col %d .. line %d col %d (0-based)" % (k, got, el1, ec1, el2, ec2))
    return len(rows)


def expected_symbol_order(syms):
    """DFS order of the symbol tree: children (by dotted-name prefix) in declaration order."""
    by_parent = {}
    for idx, s in enumerate(syms):
        if s is None:
            continue
        name = s["name"]
        parent = name.rsplit(".", 1)[0] if "." in name else None
        by_parent.setdefault(parent, []).append(s)
    out = []

    def walk(parent):
        for s in by_parent.get(parent, []):
            out.append(s)
            walk(s["name"])
    walk(None)
    return out


def fmt_hex_signed(v):
    return "-%x" % -v if v < 0 else "%x" % v


def check_symbols(text, syms):
    want = []
    for s in expected_symbol_order(syms):
        if s["noemit"]:
            continue
        if s["value"]["k"] != "int":
            continue
        want.append("%s = 0x%s" % (s["name"], s["value"]["v"]))
    got = [l for l in text.split("\n") if l != ""]
    if got != want:
        for i in range(max(len(got), len(want))):
            g = got[i] if i < len(got) else None
            w = want[i] if i < len(want) else None
            if g != w:
                raise Bad("line %d: %r, expected %r" % (i, g, w))
    return len(want)


def check_mesen(text, syms, banks):
    want = []
    for s in expected_symbol_order(syms):
        if s["noemit"] or s["value"]["k"] != "int" or s["kind"] == "const":
            continue
        if s["bank"] is None:
            continue
        b = banks[s["bank"]]
        v = int(s["value"]["v"], 16) if not s["value"]["v"].startswith("-") else -int(s["value"]["v"][1:], 16)
        name = s["name"].replace(".", "_")
        if b["outp"] is not None:
            a0 = int(b["addr"], 16) if not b["addr"].startswith("-") else -int(b["addr"][1:], 16)
            if v < 0 or a0 < 0:
                continue
            file_off = v - a0 + b["outp"] // 8
            if file_off < 16:
                continue      # inside the 16-byte header: no PRG offset exists (such labels are omitted)
            want.append(("P", file_off - 16, name))
        else:
            want.append(("R", v, name))
    got = [l for l in text.split("\n") if l != ""]
    if len(got) != len(want):
        raise Bad("%d lines for %d labels" % (len(got), len(want)))
    for g, (k, val, name) in zip(got, want):
        parts = g.split(":")
        if len(parts) != 3 or parts[0] != k or parts[2] != name:
            raise Bad("line %r, expected %s:%x:%s" % (g, k, val & ((1 << 64) - 1), name))
        if k == "R" and val < 0:
            # a label in a bank without output keeps its (negative) address, printed as a signed hex number
            if parts[1] != "-%x" % -val:
                raise Bad("line %r: address %s, expected -%x" % (g, parts[1], -val))
            continue
        if val < 0:
            raise Bad("label %s lies at file offset %d (< 16): no PRG offset exists, listed as %s" % (name, val + 16, parts[1]))
        if int(parts[1], 16) != val:
            raise Bad("line %r: offset %s, expected %x" % (g, parts[1], val))
    return len(want)
