"""Reference assembler for *structured* customasm programs (independent of customasm's code).

A program is a dict:
  isa:    {"rules": [Rule], "subs": {name: [Rule]}}                 (see gen/isa.py)
  banks:  [ {"name","unit","addr","size"(units)|None,"outp"(bits)|None,"fill","labelalign"} ]  (may be [])
  items:  list of
          ("label", name, level) ("const", name, level, tree) ("instr", toks)
          ("data", width|None, [trees]) ("res", tree) ("align", tree) ("addr", tree) ("bank", name)
          ("bankdef", index)   (definition point of banks[index]; also switches to it)
Rule: {"pat": [("lit",text) | ("param",name,typ) | ("sub",name,subname)], "prod": tree, "name": str}
Instruction toks: [("t", text, flag) | ("e", tree)]

The model lays the program out in one pass (instruction sizes are static by construction: every
candidate rule of an instruction has the same size, which the generator guarantees and the model
re-checks), then evaluates constants, operands and productions with model/expr.py.
"""
from model import expr as M


class Reject(Exception):
    """The language rules reject the program (an error diagnostic is expected)."""

    def __init__(self, kind, detail=""):
        Exception.__init__(self, kind + (": " + detail if detail else ""))
        self.kind = kind


class Unsupported(Exception):
    """Outside the model's domain - the case is not judged."""


IDENT_START = set("abcdefghijklmnopqrstuvwxyzABCDEFGHIJKLMNOPQRSTUVWXYZ_")


def is_ident(text):
    return bool(text) and text[0] in IDENT_START and all(c in IDENT_START or c.isdigit() for c in text)


# ------------------------------------------------------------------------------------------
# matching (token level; see DESIGN section 5 C01 for the constraints that make this exact)
# ------------------------------------------------------------------------------------------

def match_expr(toks, i):
    """Yields (tree, next_i) for an expression operand starting at toks[i]."""
    if i >= len(toks):
        return
    t = toks[i]
    if t[0] == "e":
        yield t[1], i + 1
    elif t[0] == "t":
        if is_ident(t[1]) and t[1] not in ("asm", "true", "false"):
            yield ("var", 0, [t[1]]), i + 1
        elif t[1] == "$":
            yield ("pc",), i + 1
        elif t[1] == "(":
            for inner, j in match_expr(toks, i + 1):
                if j < len(toks) and toks[j][0] == "t" and toks[j][1] == ")":
                    yield ("par", inner), j + 1


def match_pat(isa, pat, pi, toks, ti):
    """Yields (bindings, exact_count, next_ti) for pattern elements pat[pi:] against toks[ti:]."""
    if pi == len(pat):
        yield {}, 0, ti
        return
    el = pat[pi]
    if el[0] == "lit":
        if ti < len(toks) and toks[ti][0] == "t" and toks[ti][1].lower() == el[1].lower():
            for b, c, j in match_pat(isa, pat, pi + 1, toks, ti + 1):
                yield b, c + len(el[1]), j
        return
    if el[0] == "param":
        for tree, j in match_expr(toks, ti):
            for b, c, k in match_pat(isa, pat, pi + 1, toks, j):
                nb = {el[1]: ("expr", tree, el[2])}     # pattern order: arguments are evaluated left to right
                nb.update(b)
                yield nb, c, k
        return
    if el[0] == "sub":
        for ai, alt in enumerate(isa["subs"][el[2]]):
            for sb, sc, j in match_pat(isa, alt["pat"], 0, toks, ti):
                for b, c, k in match_pat(isa, pat, pi + 1, toks, j):
                    nb = {el[1]: ("nested", alt, sb)}
                    nb.update(b)
                    yield nb, c + sc, k
        return
    raise ValueError(el)


def candidates(isa, toks):
    """All (rule, bindings, exact_count) matching the whole instruction, filtered to the maximal
    count of literal pattern characters."""
    found = []
    for rule in isa["rules"]:
        for b, c, j in match_pat(isa, rule["pat"], 0, toks, 0):
            if j == len(toks):
                found.append((rule, b, c))
    if not found:
        return []
    best = max(c for _, _, c in found)
    return [f for f in found if f[2] == best]


# ------------------------------------------------------------------------------------------
# typing of arguments
# ------------------------------------------------------------------------------------------

class Failed(Exception):
    """Soft failure of one candidate (argument out of range / assertion false)."""


def constrain(v, typ):
    """Applies a parameter type to an evaluated argument value."""
    vi = M.as_int(v)
    if vi is None:
        raise Reject("argument type")
    if typ is None:
        return v
    kind, n = typ
    x = vi[1]
    if kind == "u":
        ok_ = 0 <= x < (1 << n)
    elif kind == "s":
        ok_ = -(1 << (n - 1)) <= x < (1 << (n - 1)) if n > 0 else False
    else:
        ok_ = (-(1 << (n - 1)) if n > 0 else 0) <= x < (1 << n)
    if n == 0:
        # the property's formulas admit exactly v = 0 at N = 0 (customasm rejects it: known finding of C04)
        ok_ = x == 0
    if not ok_:
        raise Failed("range")
    return ("int", x, n)


# ------------------------------------------------------------------------------------------
# the assembler
# ------------------------------------------------------------------------------------------

DEFAULT_BANK = {"name": "#global", "unit": 8, "addr": 0, "size": None, "outp": 0, "fill": False, "labelalign": None}


class Assembler:
    def __init__(self, prog):
        self.prog = prog
        self.isa = prog["isa"]
        self.banks = [DEFAULT_BANK] + list(prog.get("banks") or [])
        self.items = prog["items"]
        self.sym = {}          # full dotted name -> ("label", item index) | ("const", tree, ctx, item index)
        self.sym_order = []
        self.values = {}       # full name -> value tuple
        self.evaluating = set()
        self.layout = []       # per item: dict(bank, pos, size, ctx)
        self.sizes = {}        # item index -> static size

    # -- scoping
    def declare_all(self):
        ctx = []
        self.item_ctx = []
        for idx, it in enumerate(self.items):
            if it[0] in ("label", "const"):
                name, level = it[1], it[2]
                if level > len(ctx):
                    raise Reject("skips nesting level")
                parent = ctx[:level]
                full = ".".join(parent + [name])
                if full in self.sym:
                    raise Reject("duplicate symbol", full)
                self.sym[full] = (it[0], idx)
                self.sym_order.append(full)
                ctx = parent + [name]
            self.item_ctx.append(list(ctx))

    def resolve_name(self, ctx, level, names):
        if level > len(ctx):
            raise Reject("unknown symbol", "level")
        full = ".".join(ctx[:level] + list(names))
        if full not in self.sym:
            raise Reject("unknown symbol", full)
        return full

    # -- static sizes
    def rule_size(self, rule, bindings):
        env = _SizeEnv(self, bindings)
        v = M.ev(rule["prod"], env)
        if v[0] != "int" or v[2] is None:
            raise Unsupported("unsized production")
        return v[2]

    def instr_candidates(self, idx):
        toks = self.items[idx][1]
        cands = candidates(self.isa, toks)
        if not cands:
            raise Reject("no match")
        return cands

    def static_size(self, idx):
        it = self.items[idx]
        k = it[0]
        if k == "instr":
            cands = self.instr_candidates(idx)
            sizes = set(r["size"] for r, _, _ in cands)
            if len(sizes) != 1:
                raise Unsupported("value-dependent size")
            return sizes.pop()
        if k == "data":
            if it[1] is not None:
                return it[1] * len(it[2])
            raise Unsupported("unsized data directive")
        return 0

    # -- evaluation
    def value_of(self, full):
        if full in self.values:
            return self.values[full]
        kind, idx = self.sym[full]
        if kind == "label":
            raise Unsupported("label value before layout")
        if full in self.evaluating:
            raise Reject("cyclic constant", full)
        self.evaluating.add(full)
        try:
            it = self.items[idx]
            env = _Env(self, self.item_ctx_before(idx), idx)
            v = M.ev(it[3], env)
        finally:
            self.evaluating.discard(full)
        if v[0] == "void":
            raise Reject("void constant")
        self.values[full] = v
        return v

    def item_ctx_before(self, idx):
        """Symbol context in effect for expressions of item idx: for a constant declaration the
        context is the one the declaration itself establishes (customasm sets the context to the
        declared symbol before evaluating it)."""
        return self.item_ctx[idx]

    def address_at(self, idx, need_aligned=True):
        lay = self.layout[idx]
        bank = self.banks[lay["bank"]]
        pos = lay["pos"]
        if pos % bank["unit"] != 0 and need_aligned:
            raise Reject("misaligned address")
        return bank["addr"] + pos // bank["unit"]

    def run(self):
        self.declare_all()
        # pass 1: layout with static sizes; #res/#align/#addr operands must not depend on later labels
        cur = {0: 0}
        bank = 0
        names_to_bank = {b["name"]: i for i, b in enumerate(self.banks)}
        self.layout = [None] * len(self.items)
        for idx, it in enumerate(self.items):
            k = it[0]
            b = self.banks[bank]
            if k == "bankdef":
                bank = it[1] + 1
                if self.banks[bank].get("size") is not None and self.banks[bank]["size"] < 0:
                    raise Reject("bank ends before it starts")
                cur.setdefault(bank, 0)
                self.layout[idx] = {"bank": bank, "pos": cur[bank], "size": 0}
                continue
            if k == "bank":
                if it[1] not in names_to_bank:
                    raise Reject("unknown bank")
                bank = names_to_bank[it[1]]
                cur.setdefault(bank, 0)
                self.layout[idx] = {"bank": bank, "pos": cur[bank], "size": 0}
                continue
            if k in ("label", "const"):
                la = b.get("labelalign")
                if la and it[2] == 0 and k == "label":
                    absbits = b["addr"] * b["unit"] + cur[bank]
                    if absbits % la:
                        cur[bank] += la - absbits % la
            self.layout[idx] = {"bank": bank, "pos": cur[bank], "size": 0}
            if k == "label":
                full = ".".join(self.item_ctx[idx])
                self.values[full] = ("int", self.address_at(idx), None)
            elif k in ("instr", "data"):
                sz = self.static_size(idx)
                self.layout[idx]["size"] = sz
                cur[bank] += sz
            elif k == "res":
                n = self.eval_layout_operand(idx, it[1])
                if n < 0 or n >= (1 << 32):
                    raise Reject("res out of range")
                self.layout[idx]["size"] = n * b["unit"]
                self.layout[idx]["res"] = True
                cur[bank] += n * b["unit"]
            elif k == "align":
                n = self.eval_layout_operand(idx, it[1])
                if n <= 0:
                    raise Reject("invalid alignment")
                absbits = b["addr"] * b["unit"] + cur[bank]
                if absbits % n:
                    cur[bank] += n - absbits % n
            elif k == "addr":
                a = self.eval_layout_operand(idx, it[1])
                if a < b["addr"]:
                    raise Reject("address out of bank range")
                delta = (a - b["addr"]) * b["unit"]
                if b["size"] is not None and delta >= b["size"] * b["unit"]:
                    raise Reject("address out of bank range")
                cur[bank] = delta
        # pass 2: evaluate everything and emit
        writes = []   # (outpos, size, value, idx)
        reserved = []
        for idx, it in enumerate(self.items):
            k = it[0]
            lay = self.layout[idx]
            b = self.banks[lay["bank"]]
            if k == "const":
                self.value_of(".".join(self.item_ctx[idx]))
            if k in ("label", "instr", "data", "res"):
                if lay["bank"] == 0 and len(self.banks) > 1:
                    raise Reject("default bank used while banks are defined")
                size = lay["size"]
                if b["size"] is not None and lay["pos"] + size > b["size"] * b["unit"]:
                    raise Reject("out of bank range")
                if k in ("instr", "data") and b["outp"] is None:
                    raise Reject("non-writable bank")
            if k == "instr":
                bits = self.encode_instr(idx)
                writes.append((b["outp"] + lay["pos"], lay["size"], bits, idx))
            elif k == "data":
                w = it[1]
                pos = lay["pos"]
                for n, tree in enumerate(it[2]):
                    sub = dict(lay)
                    sub["pos"] = pos
                    v = self.eval_at(idx, tree, pos_override=pos)
                    vi = M.as_int(v)
                    if vi is None:
                        raise Reject("data type")
                    val, sz = vi[1], vi[2]
                    width = sz if sz is not None else M.bit_length_signed(val)
                    if width > w:
                        raise Reject("data out of range")
                    writes.append((b["outp"] + pos, w, M.bits_of(val, w, 0), idx))
                    pos += w
            elif k == "res" and b["outp"] is not None:
                reserved.append((b["outp"] + lay["pos"], lay["size"], idx))
        return self.build_output(writes, reserved)

    def eval_layout_operand(self, idx, tree):
        v = self.eval_at(idx, tree)
        if v[0] != "int":
            raise Reject("operand type")
        return v[1]

    def eval_at(self, idx, tree, pos_override=None, locals_=None):
        env = _Env(self, self.item_ctx[idx], idx, pos_override)
        if locals_:
            env.locals.update(locals_)
        v = M.ev(tree, env)
        return v

    def eval_binding(self, idx, bnd):
        """Value of one bound argument: expression (typed) or nested sub-rule match."""
        if bnd[0] == "expr":
            v = self.eval_at(idx, bnd[1])
            return constrain(v, bnd[2])
        alt, sb = bnd[1], bnd[2]
        loc = {}
        for name, inner in sb.items():
            loc[name] = self.eval_binding(idx, inner)
        try:
            v = self.eval_at(idx, alt["prod"], locals_=loc)
        except M.AssertFailed:
            raise Failed("assert")
        return v

    def encode_instr(self, idx):
        cands = self.instr_candidates(idx)
        results = []
        for rule, bindings, _ in cands:
            try:
                loc = {name: self.eval_binding(idx, bnd) for name, bnd in bindings.items()}
                v = self.eval_at(idx, rule["prod"], locals_=loc)
            except Failed:
                continue
            except M.AssertFailed:
                continue
            vi = M.as_int(v)
            if vi is None or vi[2] is None:
                raise Reject("production not a sized integer")
            results.append((vi[2], M.bits_of(vi[1], vi[2], 0), rule))
        if not results:
            raise Reject("no candidate satisfies its constraints")
        smallest = min(r[0] for r in results)
        best = [r for r in results if r[0] == smallest]
        if len(best) > 1:
            raise Reject("multiple matches with the same size")
        if best[0][0] != self.layout[idx]["size"]:
            raise Unsupported("size differs from static size")
        self.chosen = getattr(self, "chosen", {})
        self.chosen[idx] = best[0][2]["name"]
        return best[0][1]

    def build_output(self, writes, reserved):
        # overlap between banks
        outs = [(b["outp"], b["size"] * b["unit"] if b["size"] is not None else None, i)
                for i, b in enumerate(self.banks) if i > 0 and b["outp"] is not None]
        for x in range(len(outs)):
            for y in range(x + 1, len(outs)):
                o1, s1, _ = outs[x]
                o2, s2, _ = outs[y]
                e1 = o1 + s1 if s1 is not None else None
                e2 = o2 + s2 if s2 is not None else None
                if (e1 is None or e1 > o2) and (e2 is None or e2 > o1):
                    raise Reject("bank overlap")
        # overlap between items
        spans = sorted([(p, s) for p, s, _, _ in writes if s > 0] + [(p, s) for p, s, _ in reserved if s > 0])
        for (p1, s1), (p2, s2) in zip(spans, spans[1:]):
            if p1 + s1 > p2:
                raise Reject("output overlap")
        length = 0
        for p, s, _, _ in writes:
            length = max(length, p + s)
        for i, b in enumerate(self.banks):
            if b.get("fill") and b["size"] is not None and b["outp"] is not None:
                length = max(length, b["outp"] + b["size"] * b["unit"])
        value = 0
        for p, s, bits, _ in writes:
            if s:
                value |= bits << (length - p - s)
        return length, value


class _Env(M.Env):
    def __init__(self, asm, ctx, idx, pos_override=None):
        M.Env.__init__(self)
        self.asm = asm
        self.ctx = ctx
        self.idx = idx
        self.pos_override = pos_override

    def sym(self, level, names):
        if level == 0 and len(names) == 1 and names[0] in ("pc", "$"):
            # the address builtin: written bare it always means the current address, even if the program also
            # declares a symbol of that name
            return ("int", self.pc(), None)
        full = self.asm.resolve_name(self.ctx, level, names)
        return self.asm.value_of(full)

    def pc(self):
        a = self.asm
        lay = a.layout[self.idx]
        if lay is None:
            raise Reject("address in constant context")
        bank = a.banks[lay["bank"]]
        pos = lay["pos"] if self.pos_override is None else self.pos_override
        if pos % bank["unit"]:
            raise Reject("misaligned address")
        return bank["addr"] + pos // bank["unit"]

    def user_call(self, name, args):
        raise Reject("unknown function")


class _SizeEnv(M.Env):
    """Evaluates a production with dummy arguments to obtain its (static) size."""

    def __init__(self, asm, bindings):
        M.Env.__init__(self)
        for name, bnd in bindings.items():
            self.locals[name] = ("int", 0, bnd)

    def sym(self, level, names):
        return ("int", 0, None)

    def pc(self):
        return 0


def assemble(prog):
    """Returns ("ok", length, value, symbols{name: value}, chosen{item: rule}) or ("reject", kind)
    or ("unsupported", why)."""
    a = Assembler(prog)
    try:
        length, value = a.run()
        syms = {}
        for full in a.sym_order:
            syms[full] = a.values.get(full)
        return ("ok", length, value, syms, getattr(a, "chosen", {}))
    except Reject as e:
        return ("reject", e.kind, str(e))
    except M.EvalError as e:
        return ("reject", "eval:" + e.kind, "")
    except M.AssertFailed:
        return ("reject", "assert", "")
    except (Unsupported, M.Decline) as e:
        return ("unsupported", str(e))
