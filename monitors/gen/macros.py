"""G_macro: instruction sets extended with asm{} macro rules and #fn definitions, programs using
them, and the mechanically inlined twin program."""
from gen import isa as G
from gen.isa import num
from model import expr as M


def subst_text(text, mapping):
    for k, v in mapping.items():
        text = text.replace("{" + k + "}", v)
    return text


class MacroGen:
    def __init__(self, rng):
        self.rng = rng
        ig = G.IsaGen(rng, cascade=False, n_rules=rng.randint(2, 5))
        ig.bit_granular = False       # byte-sized instructions: block-local labels are always address-aligned
        self.isa = ig.gen()
        # base rules only: no tiny typed slots so that substituted arguments usually fit
        # size-static base: one rule per mnemonic (several rules of one mnemonic could make the encoding
        # size depend on the operand value, which the property excludes for the equality claim)
        seen = set()
        uniq = []
        for r in self.isa["rules"]:
            mn = r["pat"][0][1].lower()
            if mn in seen:
                continue
            seen.add(mn)
            uniq.append(r)
        if rng.random() < 0.3 and "amb" not in seen:
            # two rules of one mnemonic and one size whose ranges overlap: for 0..127 both match and the instruction is an
            # error ("multiple matches"), in a block exactly as at top level - also when the operand is a block-local label
            # whose value only settles in a later inner pass
            uniq.append({"pat": [("lit", "amb"), ("param", "x", ("u", 8))], "prod": G.concat([G.lit_sized(rng, 8, 0xa1), ("var", 0, ["x"])]),
                         "size": 16, "name": "amb0"})
            self.isa["rules"] = uniq
            self.ambiguous_twin = "    amb {x: s8} => 0xa2 @ x"
        else:
            self.ambiguous_twin = None
        self.isa["rules"] = uniq
        self.base = uniq
        self.local_label_as_macro_arg = False
        self.macros = []      # dict(name, params[(name, typ)], blocks[[("instr", text)|("label", name)]], text)
        self.fns = []         # dict(name, params, body tree)
        self.consts = {}

    # -- inner instruction text with holes
    def inner_instr(self, params, labels, allow_macro=None):
        rng = self.rng
        if allow_macro and rng.random() < 0.3:
            m = rng.choice(allow_macro)
            args = []
            for (pn, typ) in m["params"]:
                a = self.fill(typ, params, labels)
                while a == "$":
                    # `$` as a macro argument is evaluated at the calling instruction when it feeds a rule-body local
                    # but at the inner instruction when substituted as text: not expressible in the inlined twin
                    a = self.fill(typ, params, labels)
                if a in labels:
                    self.local_label_as_macro_arg = True
                args.append(a)
            return m["name"] + (" " + ", ".join(args) if args else "")
        rule = rng.choice(self.base)
        return self.render_pat_with_holes(rule["pat"], params, labels)

    def fill(self, typ, params, labels):
        rng = self.rng
        big = typ is None or typ[1] >= 8
        r = rng.random()
        if params and big and r < 0.45:
            return "{" + rng.choice(params)[0] + "}"
        if labels and (typ is None or (typ[1] >= 16 and typ[0] != "s")) and r < 0.6:
            return rng.choice(labels)
        if typ is None and r < 0.7:
            return "$"
        if typ is None:
            return str(rng.randint(0, 100))
        k, n = typ
        lo, hi = (0, (1 << n) - 1) if k == "u" else (-(1 << (n - 1)), (1 << (n - 1)) - 1) if k == "s" else (-(1 << (n - 1)), (1 << n) - 1)
        v = rng.randint(max(lo, -100), min(hi, 100))
        return str(v) if v >= 0 else "(%d)" % v

    def render_pat_with_holes(self, pat, params, labels):
        out = []
        for i, el in enumerate(pat):
            if el[0] == "lit":
                s = el[1]
            elif el[0] == "param":
                s = self.fill(el[2], params, labels)
            else:
                alt = self.rng.choice(self.isa["subs"][el[2]])
                s = self.render_pat_with_holes(alt["pat"], params, labels)
            out.append(s)
            if i == 0 and len(pat) > 1 and el[0] == "lit" and G.is_ident_text(el[1]):
                out.append(" ")
            elif el[0] == "lit" and el[1] == ",":
                out.append(" ")
        return "".join(out)

    def gen_macro(self, idx):
        rng = self.rng
        name = "mac%d" % idx
        nparams = rng.choice([0, 1, 1, 2, 2, 3])
        params = []
        for k in range(nparams):
            typ = rng.choice([None, None, ("u", 8), ("i", 8), ("u", 16), ("s", 16)])
            params.append(("abc"[k] + "r", typ))
        nblocks = 1 if rng.random() < 0.88 else 2
        blocks = []
        earlier = [m for m in self.macros] if idx > 0 else None
        for b in range(nblocks):
            n = rng.randint(1, 4)
            # label names are unique per macro: an argument text naming a caller's label must not be
            # captured by an equally named label of the callee (textual substitution is unhygienic there;
            # DESIGN section 8)
            labels = ["lb%d_%d_%d" % (idx, b, j) for j in range(rng.choice([0, 0, 1, 2]))]
            items = []
            label_pos = sorted(rng.sample(range(n + 1), len(labels))) if labels else []
            li = 0
            for j in range(n + 1):
                while li < len(labels) and label_pos[li] == j:
                    items.append(("label", labels[li]))
                    li += 1
                if j < n:
                    items.append(("instr", self.inner_instr(params, labels, allow_macro=earlier)))
            blocks.append(items)
        pat = name + (" " + ", ".join("{%s%s}" % (p, ": %s%d" % t if t else "") for p, t in params) if params else "")
        body = " @ ".join("asm {\n" + "\n".join("        " + (it[1] + ":" if it[0] == "label" else it[1]) for it in blk) + "\n    }"
                          for blk in blocks)
        locals_ = []
        if params and nblocks == 1 and rng.random() < 0.3:
            # rule-body locals computed from the parameters, used inside the block through {name} substitution
            lnames = rng.choice([["t"], ["t", "u"], ["t", "__t"], ["v0", "__v0", "w"]])
            for ln in lnames:
                src_p = rng.choice(params)[0]
                add = rng.randint(1, 9)
                locals_.append((ln, src_p, add))
            # replace some {param} holes by {local}
            new_blk = []
            for it in blocks[0]:
                # {local} only in operands of base instructions: a local handed on to a nested macro is passed by
                # (hygienised) name, which is neither visible two levels down nor safe from capture by an equally
                # named local of the callee (observed, DESIGN section 7; not generated)
                if it[0] == "instr" and not it[1].startswith("mac") and rng.random() < 0.6:
                    t = it[1]
                    for (ln, sp, add) in locals_:
                        # names starting with `__` are reserved by the substitution hygiene and cannot be referenced
                        if not ln.startswith("__") and "{" + sp + "}" in t and rng.random() < 0.7:
                            t = t.replace("{" + sp + "}", "{" + ln + "}", 1)
                    new_blk.append(("instr", t))
                else:
                    new_blk.append(it)
            blocks[0] = new_blk
            asm_text = "asm {\n" + "\n".join("        " + (it[1] + ":" if it[0] == "label" else it[1]) for it in blocks[0]) + "\n    }"
            body = "{\n" + "".join("        %s = %s + %d\n" % (ln, sp, add) for (ln, sp, add) in locals_) + "        " + asm_text + "\n    }"
        m = {"name": name, "params": params, "blocks": blocks, "text": "    %s => %s" % (pat, body), "locals": locals_}
        self.macros.append(m)
        return m

    def gen_fn(self, idx):
        rng = self.rng
        name = "fn%d" % idx
        params = ["p%d" % k for k in range(rng.randint(0, 3))]
        leaves = [("var", 0, [p]) for p in params] + [num(rng.randint(0, 9)), ("pc",)]

        def tree(d):
            if d <= 0 or rng.random() < 0.3:
                return rng.choice(leaves)
            r = rng.random()
            if r < 0.6:
                return ("bin", rng.choice(["+", "-", "*", "&", "|", "^"]), tree(d - 1), tree(d - 1))
            if r < 0.75:
                return ("tern", ("bin", rng.choice(["<", "==", ">="]), tree(d - 1), tree(d - 1)), tree(d - 1), tree(d - 1))
            if r < 0.85 and self.fns:
                f = rng.choice(self.fns)
                return ("call", f["name"], [tree(d - 1) for _ in f["params"]])
            return ("sshort", tree(d - 1), num(rng.choice([4, 8, 16])))
        body = tree(rng.randint(1, 3))
        f = {"name": name, "params": params, "body": body}
        self.fns.append(f)
        return f

    # -- inlining
    def inline_fn_calls(self, t):
        """Replaces every call of a user function by its body with the arguments substituted (parenthesised)."""
        if not isinstance(t, tuple):
            return t
        if t[0] == "call" and any(f["name"] == t[1] for f in self.fns):
            f = [f for f in self.fns if f["name"] == t[1]][0]
            args = [self.inline_fn_calls(a) for a in t[2]]
            body = self.inline_fn_calls(f["body"])
            return ("par", subst_tree(body, dict(zip(f["params"], args))))
        return tuple(self.inline_fn_calls(x) if isinstance(x, tuple) else [self.inline_fn_calls(y) for y in x] if isinstance(x, list) else x for x in t)

    def expand_macro(self, text, uid, depth=0):
        """Returns list of lines equivalent to the instruction `text` with every macro call inlined."""
        if depth > 40:
            return [text]
        head = text.split()[0] if text.split() else ""
        m = next((m for m in self.macros if m["name"] == head), None)
        if m is None:
            return [text]
        rest = text[len(head):].strip()
        args = split_args(rest) if rest else []
        if len(args) != len(m["params"]):
            return [text]
        mapping = {p: a for (p, t), a in zip(m["params"], args)}
        for (ln, sp, add) in m.get("locals", []):
            mapping[ln] = "((%s) + %d)" % (mapping[sp], add)
        lines = []
        for bi, blk in enumerate(m["blocks"]):
            ren = {it[1]: "%s_%s_%d_%s" % (m["name"], uid, bi, it[1]) for it in blk if it[0] == "label"}
            for k, it in enumerate(blk):
                if it[0] == "label":
                    lines.append(ren[it[1]] + ":")
                else:
                    t = subst_text(it[1], mapping)
                    t = rename_words(t, ren)
                    lines.extend(self.expand_macro(t, "%s_%d_%d" % (uid, bi, k), depth + 1))
        return lines


def split_args(s):
    out, depth, cur = [], 0, ""
    for c in s:
        if c in "([":
            depth += 1
        elif c in ")]":
            depth -= 1
        if c == "," and depth == 0:
            out.append(cur.strip())
            cur = ""
        else:
            cur += c
    if cur.strip():
        out.append(cur.strip())
    return out


def rename_words(text, ren):
    import re
    if not ren:
        return text
    # a name that follows a dot is a member of a dotted path (`.lb` / `g0.lb`): a symbol-table child, never the block label
    return re.sub(r"(?<![.A-Za-z0-9_])[A-Za-z_][A-Za-z0-9_]*", lambda m: ren.get(m.group(0), m.group(0)), text)


def subst_tree(t, mapping):
    if not isinstance(t, tuple):
        return t
    if t[0] == "var" and t[1] == 0 and len(t[2]) == 1 and t[2][0] in mapping:
        return ("par", mapping[t[2][0]])
    return tuple(subst_tree(x, mapping) if isinstance(x, tuple) else [subst_tree(y, mapping) for y in x] if isinstance(x, list) else x for x in t)


def gen_pair(rng):
    """Returns (macro source, inlined twin source, info)."""
    g = MacroGen(rng)
    for i in range(rng.randint(1, 4)):
        g.gen_macro(i)
    for i in range(rng.randint(0, 3)):
        g.gen_fn(i)
    head = G.render_isa(g.isa)
    if g.ambiguous_twin:
        head = head + "#ruledef\n{\n" + g.ambiguous_twin + "\n}\n"
    fn_rules, fn_rules_twin = [], []
    for k, f in enumerate(g.fns):
        if rng.random() < 0.6:
            ps = ["fa%d" % j for j in range(len(f["params"]))]
            call = ("call", f["name"], [("var", 0, [p]) for p in ps])
            w = rng.choice([8, 16])
            op = rng.getrandbits(8)
            pat = "fr%d" % k + (" " + ", ".join("{%s}" % p for p in ps) if ps else "")
            fn_rules.append("    %s => 0x%02x @ (%s)`%d" % (pat, op, M.show(call), w))
            fn_rules_twin.append("    %s => 0x%02x @ (%s)`%d" % (pat, op, M.show(g.inline_fn_calls(call)), w))
            g.fn_rule_names = getattr(g, "fn_rule_names", []) + [("fr%d" % k, len(ps))]
    if fn_rules:
        head_twin = head + "#ruledef\n{\n" + "\n".join(fn_rules_twin) + "\n}\n"
        head = head + "#ruledef\n{\n" + "\n".join(fn_rules) + "\n}\n"
    else:
        head_twin = head
    macro_block = "#ruledef\n{\n" + "\n".join(m["text"] for m in g.macros) + "\n}\n"
    fn_text = "".join("#fn %s(%s) => %s\n" % (f["name"], ", ".join(f["params"]), M.show(f["body"])) for f in g.fns)
    body, twin = [], []
    consts = {"k0": rng.randint(0, 50), "k1": rng.randint(0, 99)}
    labels = ["g%d" % i for i in range(rng.randint(1, 3))]
    n = rng.randint(3, 12)
    label_at = sorted(rng.sample(range(n + 1), len(labels)))
    li = 0
    uses_macro = 0
    # caller-side *local* labels that carry the same bare name as a label inside some macro's block: written with a
    # leading dot they are children of the caller's last global label, never the callee's block label
    block_label_names = [it[1] for m in g.macros for blk in m["blocks"] for it in blk if it[0] == "label"]
    cur_locals = []
    cur_global = None
    for j in range(n + 1):
        while li < len(labels) and label_at[li] == j:
            body.append(labels[li] + ":")
            twin.append(labels[li] + ":")
            cur_global = labels[li]
            li += 1
            cur_locals = []
            if block_label_names and rng.random() < 0.5:
                for nm in rng.sample(block_label_names, min(len(block_label_names), rng.randint(1, 2))):
                    body.append("." + nm + ":")
                    twin.append("." + nm + ":")
                    cur_locals.append("." + nm)
        if j == n:
            break
        r = rng.random()
        if r < 0.5 and g.macros:
            m = rng.choice(g.macros)
            args = []
            for (p, typ) in m["params"]:
                q = rng.random()
                if q < 0.5:
                    args.append(str(rng.randint(0, 100)))
                elif q < 0.7:
                    args.append(rng.choice(list(consts)))
                elif q < 0.85 and (typ is None or typ[1] >= 16):
                    args.append(rng.choice(labels + cur_locals + cur_locals))
                else:
                    args.append("(%d + %d)" % (rng.randint(0, 40), rng.randint(0, 40)))
            text = m["name"] + (" " + ", ".join(args) if args else "")
            body.append(text)
            # in the inlined twin the block labels become global labels of the program, which would re-parent a
            # dot-relative argument: the twin names the caller's local label by its full path instead
            twin_args = [(cur_global + a) if a.startswith(".") else a for a in args]
            twin.extend(g.expand_macro(m["name"] + (" " + ", ".join(twin_args) if twin_args else ""), "c%d" % j))
            uses_macro += 1
        elif r < 0.62 and getattr(g, "fn_rule_names", None):
            nm, np_ = rng.choice(g.fn_rule_names)
            args = [str(rng.randint(0, 60)) if rng.random() < 0.6 else rng.choice(list(consts) + labels) for _ in range(np_)]
            t = nm + (" " + ", ".join(args) if args else "")
            body.append(t)
            twin.append(t)
            uses_macro += 1
        elif r < 0.7:
            t = g.inner_instr([], labels)
            body.append(t)
            twin.append(t)
        elif r < 0.9 and g.fns:
            f = rng.choice(g.fns)
            call = ("call", f["name"], [num(rng.randint(0, 60)) if rng.random() < 0.7 else ("var", 0, [rng.choice(list(consts) + labels)])
                                        for _ in f["params"]])
            w = rng.choice([8, 16, 32])
            body.append("#d%d (%s)`%d" % (w, M.show(call), w))
            twin.append("#d%d (%s)`%d" % (w, M.show(g.inline_fn_calls(call)), w))
            uses_macro += 1
        else:
            v = rng.randint(0, 255)
            body.append("#d8 %d" % v)
            twin.append("#d8 %d" % v)
    tail = "".join("%s = %d\n" % kv for kv in consts.items())
    bank = ""
    if rng.random() < 0.25:
        # an address unit smaller than the (byte-sized) instructions: every label is still aligned, but an address is
        # no longer a byte count
        bank = "#bankdef prog\n{\n    #bits %d\n    #addr 0x%x\n    #outp 0\n}\n" % (rng.choice([4, 4, 2, 1]), rng.choice([0, 0x10, 0x100]))
    src = head + macro_block + fn_text + bank + "\n".join(body) + "\n" + tail
    twin_src = head_twin + fn_text + bank + "\n".join(twin) + "\n" + tail
    return src, twin_src, {"macros": len(g.macros), "fns": len(g.fns), "uses": uses_macro,
                           # any instruction of a later block may depend on the position ($ in the text, in a
                           # substituted argument or in the base rule's production, or a block-local label)
                           "multi_block": any(len(m["blocks"]) > 1 for m in g.macros),
                           "local_label_as_macro_arg": g.local_label_as_macro_arg}
