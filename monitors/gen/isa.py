"""G_isa / G_casc: generated instruction sets and structured programs over them, plus rendering.

Structures are the ones documented in model/asm.py.
"""
from model import expr as M
from gen import exprgen

MNEMS = ["ld", "ldx", "ldxy", "l", "st", "stx", "add", "ad", "a", "mov", "jmp", "j", "jr", "nop", "halt",
         "inc1", "x2", "cmp", "push", "pop", "mul", "and", "or", "b", "bra", "call", "ret", "ldi", "2dup", "2w", "4s"]
REGS = ["a", "b", "c", "x", "y", "sp", "hl", "r0", "r1", "r2", "r3", "ix"]
WRAPS = [("", ""), ("", ""), ("", ""), ("", ""), ("(", ")"), ("[", "]"), ("#", "")]


def lit_sized(rng, size, value=None):
    """Sized literal of exactly `size` bits (hex when size % 4 == 0, else binary)."""
    v = rng.getrandbits(size) if value is None else value
    if size % 4 == 0 and rng.random() < 0.8:
        text = "0x" + format(v, "0%dx" % (size // 4))
    else:
        text = "0b" + format(v, "0%db" % size)
    return ("int", v, size, text)


def num(v):
    if v < 0:
        return ("neg", ("int", -v, None, str(-v)))
    return ("int", v, None, str(v))


def concat(pieces):
    t = pieces[0]
    for p in pieces[1:]:
        t = ("bin", "@", t, p)
    return t


def typ_text(typ):
    return "%s%d" % typ if typ else None


def render_pat(pat, comma_space=True, cs=None):
    """Pattern text of a rule: one blank after the mnemonic, optional blank after commas. `cs` = (before, after) gives this
    rule its own spacing around commas (a blank written in a pattern must be present in the instruction, but it is not
    literal text: it must not weigh in when a more literal rule competes with a more general one)."""
    out = []
    for i, el in enumerate(pat):
        if el[0] == "lit" and el[1] == "," and cs is not None:
            out.append(cs[0] + "," + cs[1])
            continue
        if el[0] == "lit":
            s = el[1]
        elif el[0] == "param":
            s = "{" + el[1] + (": " + typ_text(el[2]) if el[2] else "") + "}"
        else:
            s = "{" + el[1] + ": " + el[2] + "}"
        out.append(s)
        if i == 0 and len(pat) > 1 and el[0] == "lit" and is_ident_text(el[1]):
            out.append(" ")
        elif el[0] == "lit" and el[1] == "," and comma_space:
            out.append(" ")
    return "".join(out)


def is_ident_text(s):
    # also a digit-led mnemonic such as `2dup` (a number token to the tokenizer) is written as one word
    return s[:1].isalnum() or s[:1] == "_"



class IsaGen:
    def __init__(self, rng, cascade=False, allow_subs=True, n_rules=None, allow_zero_width=False):
        self.rng = rng
        self.cascade = cascade
        self.allow_subs = allow_subs
        self.comma_space = rng.random() < 0.6
        self.subs = {}
        self.rules = []
        self.n_rules = n_rules or rng.randint(2, 12)
        self.allow_zero_width = allow_zero_width
        self.bit_granular = rng.random() < 0.06

    def gen_type(self):
        rng = self.rng
        k = rng.choice("usi")
        n = rng.choice([1, 2, 3, 4, 5, 7, 8, 8, 8, 9, 12, 16, 16, 24, 32])
        return (k, n)

    def gen_sub(self, name):
        rng = self.rng
        nbits = rng.choice([2, 3, 4])
        regs = rng.sample(REGS, min(len(REGS), rng.randint(2, 4)))
        alts = []
        for i, r in enumerate(regs):
            alts.append({"pat": [("lit", r)], "prod": lit_sized(rng, nbits, i), "size": nbits,
                         "name": "%s.%d" % (name, i)})
        if rng.random() < 0.25:
            # wide sub-rule family: every alternative yields 16 bits, one takes an address-sized parameter
            nbits = 16
            alts = [{"pat": [("lit", r)], "prod": lit_sized(rng, 16, 0xff00 + i), "size": 16, "name": "%s.%d" % (name, i)}
                    for i, r in enumerate(regs[:2])]
            pat = [("param", "v", rng.choice([("u", 16), ("i", 16), None]))]
            prod = ("var", 0, ["v"]) if pat[0][2] else ("sshort", ("var", 0, ["v"]), num(16))
            if rng.random() < 0.5:
                pat = [("lit", "#")] + pat
            alts.append({"pat": pat, "prod": prod, "size": 16, "name": "%s.%d" % (name, len(alts))})
            self.subs[name] = alts
            return nbits
        if rng.random() < 0.4:
            # an alternative with a parameter: #{v: uN} or {v: uN}
            pat = [("param", "v", ("u", nbits))]
            if rng.random() < 0.6:
                pat = [("lit", "#")] + pat
            alts.append({"pat": pat, "prod": ("var", 0, ["v"]), "size": nbits, "name": "%s.%d" % (name, len(alts))})
        self.subs[name] = alts
        return nbits

    def gen_piece(self, name, typ, subsize=None):
        """A sized production piece using parameter `name`; returns (tree, size)."""
        rng = self.rng
        v = ("var", 0, [name])
        if subsize is not None:
            return v, subsize
        if typ is not None:
            k, n = typ
            r = rng.random()
            if r < 0.55 or n == 0:
                return v, n
            if r < 0.70 and n % 8 == 0 and n > 0:
                return ("call", "le", [v]), n
            if r < 0.85 and n > 1:
                hi = rng.randint(0, n - 1)
                lo = rng.randint(0, hi)
                return ("slice", v, num(hi), num(lo)), hi - lo + 1
            m = rng.choice([n, n + 4, max(1, n - 1)])
            return ("sshort", v, num(m)), m
        r = rng.random()
        n = rng.choice([4, 8, 8, 8, 12, 16, 16, 24, 32])
        if r < 0.4:
            return ("sshort", v, num(n)), n
        if r < 0.6:
            hi = rng.randint(0, 31)
            lo = rng.randint(0, hi)
            return ("slice", v, num(hi), num(lo)), hi - lo + 1
        if r < 0.8:
            return ("sshort", ("par", ("bin", "-", v, ("pc",))), num(n)), n
        if r < 0.9 and n % 8 == 0:
            return ("call", "le", [("sshort", v, num(n))]), n
        return ("sshort", ("par", ("bin", "+", v, num(rng.randint(1, 9)))), num(n)), n

    def gen_rule(self, mnem, idx):
        rng = self.rng
        arity = rng.choice([0, 1, 1, 1, 2, 2, 2, 3])
        pat = [("lit", mnem)]
        params = []
        for k in range(arity):
            if k > 0:
                pat.append(("lit", ","))
            r = rng.random()
            pre, suf = rng.choice(WRAPS)
            if r < 0.28:
                if pre == "#":
                    pre = ""
                if pre:
                    pat.append(("lit", pre))
                pat.append(("lit", rng.choice(REGS)))
                if suf:
                    pat.append(("lit", suf))
                continue
            name = "pqrstuvw"[k] if rng.random() < 0.8 else rng.choice(["val", "imm", "dst", "src"]) + str(k)
            if pre:
                pat.append(("lit", pre))
            if r < 0.65:
                typ = self.gen_type()
                pat.append(("param", name, typ))
                params.append((name, typ, None))
            elif r < 0.82 or not self.allow_subs:
                pat.append(("param", name, None))
                params.append((name, None, None))
            else:
                subname = rng.choice(["reg", "rp", "cc"])
                if subname not in self.subs:
                    self.gen_sub(subname)
                pat.append(("sub", name, subname))
                params.append((name, None, self.subs[subname][0]["size"]))
            if suf:
                pat.append(("lit", suf))
        # production
        opsize = rng.choice([4, 8, 8, 8, 6, 3, 16])
        pieces = [(lit_sized(rng, opsize), opsize)]
        use = list(params)
        if rng.random() < 0.3:
            rng.shuffle(use)
        if use and rng.random() < 0.1:
            use.append(rng.choice(params))
        elif len(use) >= 1 and rng.random() < 0.06:
            # a parameter the production ignores: its argument is still evaluated and range-checked
            use.pop(rng.randrange(len(use)))
        for name, typ, subsize in use:
            pieces.append(self.gen_piece(name, typ, subsize))
            if rng.random() < 0.15:
                s = rng.choice([1, 4, 8])
                pieces.append((lit_sized(rng, s), s))
        size = sum(s for _, s in pieces)
        if size % 8 and not self.bit_granular:
            pad = 8 - size % 8
            pieces.insert(rng.randint(1, len(pieces)), (lit_sized(rng, pad), pad))
            size += pad
        prod = concat([p for p, _ in pieces])
        rule = {"pat": pat, "prod": prod, "size": size, "name": "r%d" % idx}
        if rng.random() < 0.3:
            rule["cs"] = rng.choice([(" ", ""), ("", " "), (" ", " "), ("", ""), ("  ", " ")])
        return rule

    def gen(self):
        rng = self.rng
        pool = rng.sample(MNEMS, min(len(MNEMS), rng.randint(2, 7)))
        for i in range(self.n_rules):
            mnem = rng.choice(pool)
            rule = self.gen_rule(mnem, i)
            self.rules.append(rule)
        if self.cascade:
            self.add_cascades()
        self.dedupe()
        return {"rules": self.rules, "subs": self.subs, "comma_space": self.comma_space, "bool_flags": getattr(self, "bool_flags", []),
                "late_consts": getattr(self, "late_consts", [])}

    def add_cascades(self):
        """Families whose encoding size depends on the operand value."""
        rng = self.rng
        for f in range(rng.randint(1, 3)):
            # suffixes never equal an operand token: `call q` would otherwise also match a glued rule `callq`
            # (blanks inside a rule's literal run are skipped by the character-level matcher; C07's directed case)
            mnem = rng.choice(["jmp", "bra", "call", "ldi", "b"]) + rng.choice(["", "", "_w", "_q"])
            style = rng.choice(["typed", "assert", "rel", "posfence", "boolconst", "lateconst", "zeros"])
            base = len(self.rules)
            op = rng.getrandbits(8)
            if style == "typed":
                widths = sorted(rng.sample([4, 8, 16, 24, 32], rng.randint(2, 3)))
                kind = rng.choice("usi")
                for w in widths:
                    self.rules.append({"pat": [("lit", mnem), ("param", "a", (kind, w))],
                                       "prod": concat([lit_sized(rng, 8, (op + w) & 0xff), ("var", 0, ["a"])]),
                                       "size": 8 + w, "name": "c%d" % len(self.rules)})
            elif style == "boolconst":
                # the encoding (and its size) is selected by a boolean constant that the program defines from a label
                flag = "bflag%d" % f
                self.bool_flags = getattr(self, "bool_flags", []) + [flag]
                self.rules.append({"pat": [("lit", mnem)],
                                   "prod": ("tern", ("var", 0, [flag]), lit_sized(rng, 24), lit_sized(rng, 8)),
                                   "size": 24, "name": "c%d" % len(self.rules)})
            elif style == "zeros":
                # padding whose *size* depends on the operand while its numeric value is always zero: a pass in which
                # such an item changes moves the following labels without changing any encoding's value
                lim = rng.choice([0x4, 0x8, 0x10, 0x20])
                sizes = rng.choice([(8, 24), (8, 16), (16, 32)])
                zero = lambda n: ("int", 0, n, "0x" + "0" * (n // 4))
                small = ("block", [("call", "assert", [("bin", "<", ("var", 0, ["a"]), num(lim))]), zero(sizes[0])])
                self.rules.append({"pat": [("lit", mnem), ("param", "a", None)], "prod": small, "size": sizes[0],
                                   "name": "c%d" % len(self.rules)})
                self.rules.append({"pat": [("lit", mnem), ("param", "a", None)], "prod": zero(sizes[1]), "size": sizes[1],
                                   "name": "c%d" % len(self.rules)})
            elif style == "lateconst":
                # two unconditional candidates; the smaller one adds a global constant that the program may define
                # from a data file *after* its uses (statically known, yet unknown while the first pass visits the
                # instruction): the smaller candidate must still win
                zk = "zk%d" % f
                self.late_consts = getattr(self, "late_consts", []) + [zk]
                self.rules.append({"pat": [("lit", mnem), ("param", "a", None)],
                                   "prod": concat([lit_sized(rng, 8, op),
                                                   ("sshort", ("par", ("bin", "+", ("var", 0, ["a"]), ("var", 0, [zk]))), num(8))]),
                                   "size": 16, "name": "c%d" % len(self.rules)})
                self.rules.append({"pat": [("lit", mnem), ("param", "a", None)],
                                   "prod": concat([lit_sized(rng, 8, (op + 1) & 0xff), ("sshort", ("var", 0, ["a"]), num(16))]),
                                   "size": 24, "name": "c%d" % len(self.rules)})
            elif style == "posfence":
                # encodings selected by the *position* alone: blocks whose last expression is a constant but whose
                # assertion depends on $ ({ assert($ < K), 0xaa } / { assert($ >= K), 0xbbbb })
                k = rng.choice([2, 4, 8, 16, 32])
                sizes = rng.choice([(8, 8), (8, 16), (16, 8)])
                self.rules.append({"pat": [("lit", mnem)],
                                   "prod": ("block", [("call", "assert", [("bin", "<", ("pc",), num(k))]), lit_sized(rng, sizes[0])]),
                                   "size": sizes[0], "name": "c%d" % len(self.rules)})
                self.rules.append({"pat": [("lit", mnem)],
                                   "prod": ("block", [("call", "assert", [("bin", ">=", ("pc",), num(k))]), lit_sized(rng, sizes[1])]),
                                   "size": sizes[1], "name": "c%d" % len(self.rules)})
            elif style == "assert":
                # { assert(a < K) \n 0x.. @ a`8 }  vs  0x.. @ a`16
                lim = rng.choice([0x10, 0x80, 0x100, 0x20])
                small = ("block", [("call", "assert", [("bin", "<", ("var", 0, ["a"]), num(lim))]),
                                   concat([lit_sized(rng, 8, op), ("sshort", ("var", 0, ["a"]), num(8))])])
                self.rules.append({"pat": [("lit", mnem), ("param", "a", None)], "prod": small, "size": 16,
                                   "name": "c%d" % len(self.rules)})
                self.rules.append({"pat": [("lit", mnem), ("param", "a", None)],
                                   "prod": concat([lit_sized(rng, 8, (op + 1) & 0xff), ("sshort", ("var", 0, ["a"]), num(16))]),
                                   "size": 24, "name": "c%d" % len(self.rules)})
            else:
                # short pc-relative form guarded by assert, long absolute form
                d = ("par", ("bin", "-", ("var", 0, ["a"]), ("pc",)))
                lim = rng.choice([8, 16, 127])
                cond = ("bin", "&&", ("bin", "<", d, num(lim)), ("bin", ">=", d, num(-lim)))
                short = ("block", [("call", "assert", [cond]),
                                   concat([lit_sized(rng, 8, op), ("sshort", d, num(8))])])
                self.rules.append({"pat": [("lit", mnem), ("param", "a", None)], "prod": short, "size": 16,
                                   "name": "c%d" % len(self.rules)})
                self.rules.append({"pat": [("lit", mnem), ("param", "a", None)],
                                   "prod": concat([lit_sized(rng, 8, (op + 1) & 0xff), ("sshort", ("var", 0, ["a"]), num(16))]),
                                   "size": 24, "name": "c%d" % len(self.rules)})

    def dedupe(self):
        """Drops rules whose pattern equals an earlier rule's (identical token/kind sequence) unless
        kept on purpose (ties are produced through typed overlaps instead)."""
        seen = set()
        out = []
        for r in self.rules:
            key = tuple((e[0], e[1].lower() if e[0] == "lit" else (e[2] if e[0] == "param" else e[2])) for e in r["pat"])
            if key in seen:
                continue
            seen.add(key)
            out.append(r)
        for i, r in enumerate(out):
            r["name"] = "r%d" % i
        self.rules = out


# ------------------------------------------------------------------------------------------
# rendering
# ------------------------------------------------------------------------------------------

def show_prod(tree):
    if tree[0] == "block":
        return "{\n        " + "\n        ".join(M.show(e) for e in tree[1]) + "\n    }"
    return M.show(tree)


def render_isa(isa, order=None, split=None):
    """Text of the #subruledef / #ruledef blocks. order: permutation of rule indices; split: list of
    block sizes to partition the (ordered) rules into several #ruledef blocks."""
    lines = []
    for name, alts in isa["subs"].items():
        lines.append("#subruledef %s\n{" % name)
        for a in alts:
            lines.append("    %s => %s" % (render_pat(a["pat"], isa.get("comma_space", True)), show_prod(a["prod"])))
        lines.append("}")
    idxs = list(order) if order is not None else list(range(len(isa["rules"])))
    blocks = []
    if split:
        p = 0
        for n in split:
            blocks.append(idxs[p:p + n])
            p += n
        if p < len(idxs):
            blocks.append(idxs[p:])
    else:
        blocks = [idxs]
    for b in blocks:
        if not b:
            continue
        lines.append("#ruledef\n{")
        for i in b:
            r = isa["rules"][i]
            lines.append("    %s => %s" % (render_pat(r["pat"], isa.get("comma_space", True), r.get("cs")), show_prod(r["prod"])))
        lines.append("}")
    return "\n".join(lines) + "\n"


PRE_COMMA_BLANK = True


def render_instr(toks, style=None):
    """Instruction text: blank after the mnemonic and after commas; `style` may supply
    extra separators per gap (list of strings, len = len(toks)-1) and a recasing function."""
    out = []
    for i, t in enumerate(toks):
        if t[0] == "t":
            s = t[1]
            if style and style.get("recase") and len(t) > 2 and t[2] == "lit":
                s = style["recase"](s)
        else:
            s = M.show(t[1])
        out.append(s)
        if i + 1 < len(toks):
            gap = ""
            if i + 1 == instr_mnemonic_len(toks):
                gap = " "
            elif t[0] == "t" and t[1] == ",":
                gap = " "
            elif PRE_COMMA_BLANK and toks[i + 1][0] == "t" and toks[i + 1][1] == ",":
                gap = " "          # some rule of the instruction set writes a blank before its commas: the instruction has one too
            if style and style.get("gaps"):
                gap += style["gaps"][i]
            out.append(gap)
    return "".join(out)


def instr_mnemonic_len(toks):
    return 1


def render_bank(b):
    f = []
    if b.get("unit", 8) != 8 or b.get("show_bits"):
        f.append("#bits %d" % b["unit"])
    f.append("#addr 0x%x" % b["addr"] if b["addr"] >= 0 else "#addr -0x%x" % -b["addr"])
    if b.get("size") is not None and b.get("size_as_end"):
        end = b["addr"] + b["size"]
        f.append("#addr_end 0x%x" % end if end >= 0 else "#addr_end -0x%x" % -end)
    elif b.get("size") is not None:
        f.append("#size 0x%x" % b["size"])
    if b.get("outp") is not None:
        f.append("#outp %d" % b["outp"])
    if b.get("fill"):
        f.append("#fill")
    if b.get("labelalign"):
        f.append("#labelalign %d" % b["labelalign"])
    return "#bankdef %s\n{\n    %s\n}" % (b["name"], "\n    ".join(f))


def render_items(prog, instr_style=None, rename=None):
    """Program body text. rename: dict old symbol name -> new (consistent renaming, C07)."""
    lines = []
    ren = rename or {}

    def rn(tree):
        return rename_tree(tree, ren) if ren else tree

    for idx, it in enumerate(prog["items"]):
        k = it[0]
        if k == "label":
            lines.append("." * it[2] + ren.get(it[1], it[1]) + ":")
        elif k == "const":
            lines.append("." * it[2] + ren.get(it[1], it[1]) + " = " + M.show(rn(it[3])))
        elif k == "instr":
            toks = it[1]
            if ren:
                toks = [(t if t[0] == "t" and not (len(t) > 2 and t[2] == "sym") else
                         (("t", ren.get(t[1], t[1])) + tuple(t[2:]) if t[0] == "t" else ("e", rn(t[1])))) for t in toks]
            st = instr_style(idx) if instr_style else None
            lines.append(render_instr(toks, st))
        elif k == "data":
            lines.append("#d%s %s" % ("" if it[1] is None else it[1], ", ".join(M.show(rn(t)) for t in it[2])))
        elif k == "res":
            lines.append("#res " + M.show(rn(it[1])))
        elif k == "align":
            lines.append("#align " + M.show(rn(it[1])))
        elif k == "addr":
            lines.append("#addr " + M.show(rn(it[1])))
        elif k == "bank":
            lines.append("#bank " + it[1])
        elif k == "bankdef":
            lines.append(render_bank(prog["banks"][it[1]]))
        elif k == "raw":
            lines.append(it[1])
    return "\n".join(lines) + "\n"


def render(prog, **kw):
    return render_isa(prog["isa"], kw.get("order"), kw.get("split")) + "\n" + \
        render_items(prog, kw.get("instr_style"), kw.get("rename"))


def rename_tree(t, ren):
    if not isinstance(t, tuple):
        return t
    if t[0] == "var":
        return ("var", t[1], [ren.get(n, n) for n in t[2]])
    return tuple((rename_tree(x, ren) if isinstance(x, tuple) else
                  [rename_tree(y, ren) for y in x] if isinstance(x, list) else x) for x in t)


# ------------------------------------------------------------------------------------------
# programs
# ------------------------------------------------------------------------------------------

class ProgGen:
    def __init__(self, rng, isa, n_items=None, banks=False, faults=True, forward=True, labelalign=False):
        self.rng = rng
        self.isa = isa
        self.n_items = n_items or rng.randint(4, 30)
        self.use_banks = banks
        self.faults = faults
        self.forward = forward
        self.labelalign = labelalign
        self.labels = []      # (full dotted path list)
        self.consts = {}      # name -> int value (global constants with literal values)
        self.items = []
        self.banks = []
        self.fault = None
        self.unit = 8

    # -- operands
    def value_for(self, typ, in_range=True):
        rng = self.rng
        if typ is None:
            return rng.choice([0, 1, 5, 0x7f, 0x80, 0xff, 0x100, 0x1234, 0xffff, 0x10000, rng.getrandbits(20),
                               -1, -2, -128, -129, -rng.getrandbits(12)])
        k, n = typ
        if k == "u":
            lo, hi = 0, (1 << n) - 1
        elif k == "s":
            lo, hi = -(1 << (n - 1)), (1 << (n - 1)) - 1
        else:
            lo, hi = -(1 << (n - 1)), (1 << n) - 1
        if in_range:
            return rng.choice([lo, hi, lo, hi, 0 if lo <= 0 <= hi else lo, rng.randint(lo, hi), rng.randint(lo, hi),
                               min(hi, 1), max(lo, -1)])
        return rng.choice([lo - 1, hi + 1, lo - 1, hi + 1, hi + 2, lo - rng.randint(2, 300), hi + rng.randint(2, 300)])

    def operand_tokens(self, value, allow_symbols=True):
        """Tokens of an operand expression with the given integer value."""
        rng = self.rng
        r = rng.random()
        if value >= 0 and r < 0.45:
            lit = exprgen.lit_int(rng, value, force_base=rng.choice(["d", "d", "x", "b"]))
            # sized spellings keep the value; typed parameters look at the value only
            return [("e", lit)]
        if r < 0.6 or value < 0 and r < 0.75:
            if value < 0:
                return [("e", ("neg", exprgen.lit_int(rng, -value, force_base=rng.choice(["d", "x"]))))]
            return [("e", exprgen.lit_int(rng, value, force_base="d"))]
        if r < 0.75:
            d = rng.randint(1, 9)
            op = rng.choice(["+", "-"])
            a = value - d if op == "+" else value + d
            inner = ("bin", op, num(a) if a >= 0 else ("par", num(a)), num(d))
            return [("t", "("), ("e", inner), ("t", ")")]
        if allow_symbols and r < 0.92:
            name = self.const_for(value)
            return [("t", name, "sym")]
        if allow_symbols and r < 0.96 and self.labels:
            # a conditional whose branches are literals but whose condition looks at a label (possibly defined further
            # down: taken as 0 while the first pass guesses): the value is only known once the layout is
            lab = rng.choice([l for l in self.labels if len(l) == 1] or self.labels)
            other = value ^ 1
            cond = ("bin", rng.choice([">", ">="]), ("var", 0, list(lab)), num(rng.choice([0, 1, 2, 4])))
            return [("t", "("), ("e", ("tern", cond, num(value), num(other))), ("t", ")")]
        return [("e", exprgen.lit_int(rng, abs(value), "d"))] if value >= 0 else [("e", ("neg", num(-value)))]

    def const_for(self, value):
        for n, v in self.consts.items():
            if v == value:
                return n
        name = "k%d" % len(self.consts)
        if self.rng.random() < 0.08:
            cand = self.rng.choice(["p", "q", "r", "a", "v", "val0", "imm1", "dst0", "src1"])
            if cand not in self.consts and cand.lower() not in [x.lower() for x in REGS + MNEMS]:
                name = cand
        self.consts[name] = value
        return name

    def gen_instr(self, rule=None, in_range=None):
        rng = self.rng
        isa = self.isa
        rule = rule or rng.choice(isa["rules"])
        toks = self.instance(rule["pat"], in_range)
        return ("instr", toks)

    def instance(self, pat, in_range=None):
        rng = self.rng
        toks = []
        for i, el in enumerate(pat):
            if el[0] == "lit":
                flag = "lit"
                toks.append(("t", el[1], flag))
            elif el[0] == "param":
                typ = el[2]
                inr = in_range if in_range is not None else True
                r = rng.random()
                wide = typ is not None and typ[1] >= 16 and typ[0] != "s" or typ is not None and typ[1] >= 17
                if (typ is None and self.labels and r < 0.45) or (wide and self.labels and r < 0.3):
                    lab = rng.choice(self.labels)
                    toks.append(self.label_ref_tok(lab))
                elif typ is None and r < 0.55:
                    toks.append(("t", "$"))
                else:
                    v = self.value_for(typ, inr)
                    toks.extend(self.operand_tokens(v))
            else:
                alts = self.isa["subs"][el[2]]
                alt = rng.choice(alts)
                toks.extend(self.instance(alt["pat"], True))
        return toks

    def label_ref_tok(self, lab):
        """Reference to label `lab` (path list) usable from global context: dotted absolute path."""
        if len(lab) == 1:
            return ("t", lab[0], "sym")
        return ("e", ("var", 0, list(lab)))

    # -- program
    def gen(self):
        rng = self.rng
        items = self.items
        if self.use_banks:
            self.gen_banks()
        cur_global = None
        n_labels_planned = rng.randint(1, 6)
        planned = ["lbl%d" % i for i in range(n_labels_planned)]
        if self.forward:
            # labels referenced before their definition: pre-register global names
            self.labels = [[n] for n in planned]
        declared = 0
        for i in range(self.n_items):
            r = rng.random()
            if r < 0.14 and declared < n_labels_planned:
                name = planned[declared]
                declared += 1
                items.append(("label", name, 0))
                cur_global = name
                if not self.forward:
                    self.labels.append([name])
            elif r < 0.20 and cur_global is not None:
                name = "loc%d" % rng.randint(0, 3)
                path = [cur_global, name]
                if path not in self.labels and not any(it[0] in ("label", "const") and it[2] == 1 and it[1] == name and
                                                       self._parent_of(len(items)) == cur_global for it in items):
                    items.append(("label", name, 1))
                    self.labels.append(path)
            elif r < 0.30:
                w = rng.choice([1, 4, 8, 8, 8, 16, 16, 24, 32, 3, 12])
                vals = []
                for _ in range(rng.randint(1, 4)):
                    if self.labels and rng.random() < 0.3:
                        lab = rng.choice(self.labels)
                        vals.append(("sshort", ("var", 0, list(lab)), num(w)) if True else None)
                    else:
                        v = self.value_for(("i", w), True)
                        if rng.random() < 0.8:
                            vals.append(num(v) if v < 0 or rng.random() < 0.5 else ("int", v, None, "%d" % v))
                        else:
                            vals.append(self.operand_tree(v))
                items.append(("data", w, vals))
                if (w * len(vals)) % 8 and rng.random() < 0.85:
                    items.append(("align", num(8)))
            elif r < 0.34:
                items.append(("res", num(rng.randint(0, 4))))
            elif r < 0.38:
                items.append(("align", num(rng.choice([8, 16, 32, 64, 24]))))
            elif r < 0.40 and not self.use_banks:
                # forward #addr relative to the current position; sometimes backward, into (or before) what was just
                # emitted: a following item then overlaps and the program must be rejected
                if rng.random() < 0.15:
                    items.append(("addr", ("bin", "-", ("pc",), num(rng.randint(1, 3)))))
                else:
                    items.append(("addr", ("bin", "+", ("pc",), num(rng.randint(0, 5)))))
            elif r < 0.46 and self.use_banks and len(self.banks) > 1:
                b = rng.choice(self.banks)
                items.append(("bank", b["name"]))
            else:
                items.append(self.gen_instr())
        # labels that were planned but not declared yet: declare at the end
        while declared < n_labels_planned:
            items.append(("label", planned[declared], 0))
            declared += 1
            if rng.random() < 0.5:
                items.append(self.gen_instr())
        # constants used by operands: declared at random positions (top-level names never collide
        # with nested scopes because a constant at level 0 would re-parent following locals; place
        # them before the first label or at the very end after a fresh label-free point)
        const_items = [("const", n, 0, self.operand_tree(v, allow_symbols=False)) for n, v in self.consts.items()]
        rng.shuffle(const_items)
        first_label = next((i for i, it in enumerate(items) if it[0] == "label"), len(items))
        head = [it for it in const_items if rng.random() < 0.5]
        tail = [it for it in const_items if it not in head]
        pos0 = self.bank_prefix_len()
        items[pos0:pos0] = head
        if tail:
            # at the end, constants would re-parent nothing that follows
            items.extend(tail)
        for flag in self.isa.get("bool_flags", []):
            lab = rng.choice(planned)
            cond = ("bin", rng.choice([">", "<", ">="]), ("var", 0, [lab]), num(rng.choice([0, 1, 2, 4, 8, 16, 32])))
            # optionally through a chain of further constants (flag = f_1, f_1 = f_2, f_2 = condition): each link declared
            # before the one it copies lags it by another pass
            chain = [flag] + ["%s_%d" % (flag, k) for k in range(1, rng.choice([1, 1, 2, 3]))]
            nodes = [("const", chain[k], 0, ("var", 0, [chain[k + 1]])) for k in range(len(chain) - 1)] + [("const", chain[-1], 0, cond)]
            for node in nodes:
                r = rng.random()
                globals_at = [k for k, it in enumerate(items) if it[0] == "label" and it[2] == 0]
                if r < 0.4 and globals_at:
                    # between its uses and the label it depends on: the constant then lags the label by one pass and its
                    # users lag it by another (inserted right before a global label, so no local label changes parent)
                    items.insert(rng.choice(globals_at), node)
                elif r < 0.75:
                    items.append(node)
                else:
                    items.insert(0, node)
        if self.isa.get("late_consts") is not None and rng.random() < 0.15:
            # a global *constant* that opens a scope (like a label does) right after a label with an equally named child:
            #     zsa:  .zv = 7      zsb = 0x20  .zv = <earlier label>      <instr> .zv
            # `.zv` below means zsb.zv, whose value follows a label that may still move after the first pass
            untyped = [r for r in self.isa["rules"] if len(r["pat"]) == 2 and r["pat"][1][0] == "param" and r["pat"][1][2] is None]
            earlier = [it[1] for it in items if it[0] == "label" and it[2] == 0]
            if untyped and earlier:
                r = rng.choice(untyped)
                items.append(("label", "zsa", 0))
                items.append(("const", "zv", 1, num(rng.randint(0, 9))))
                items.append(("const", "zsb", 0, num(0x20)))
                items.append(("const", "zv", 1, ("var", 0, [rng.choice(earlier)])))
                for _ in range(rng.randint(1, 2)):
                    items.append(("instr", [("t", r["pat"][0][1], "lit"), ("e", ("var", 1, ["zv"]))]))
        if self.isa.get("late_consts") is not None and rng.random() < 0.12:
            # a user constant that happens to be called `pc`: a bare `pc` operand still means the current address
            untyped = [r for r in self.isa["rules"] if len(r["pat"]) == 2 and r["pat"][1][0] == "param" and r["pat"][1][2] is None]
            if untyped:
                items.insert(rng.choice([0, len(items)]), ("const", "pc", 0, num(rng.randint(0, 9))))
                for _ in range(rng.randint(1, 3)):
                    r = rng.choice(untyped)
                    at = rng.randint(self.bank_prefix_len(), len(items))
                    if at < len(items) and items[at][0] in ("bankdef",):
                        continue
                    items.insert(at, ("instr", [("t", r["pat"][0][1], "lit"), ("t", "pc", "sym")]))
        extra_files = {}
        for zk in self.isa.get("late_consts", []):
            v = rng.randint(0, 127)        # incbin reads the file as a *signed* big-endian number: keep the top bit clear
            if rng.random() < 0.75:
                fname = "%s.bin" % zk
                extra_files[fname] = bytes([v])
                node = ("const", zk, 0, ("incfile", fname, v))
            else:
                node = ("const", zk, 0, num(v))
            r = rng.random()
            globals_at = [k for k, it in enumerate(items) if it[0] == "label" and it[2] == 0]
            if r < 0.3 and globals_at:
                items.insert(rng.choice(globals_at), node)
            elif r < 0.8:
                items.append(node)
            else:
                items.insert(0, node)
        prog = {"isa": self.isa, "banks": self.banks, "items": items, "extra_files": extra_files}
        if self.faults and rng.random() < 0.22:
            self.inject_fault(prog)
        prog["fault"] = self.fault
        return prog

    def _parent_of(self, upto):
        g = None
        for it in self.items[:upto]:
            if it[0] in ("label", "const") and it[2] == 0:
                g = it[1]
        return g

    def bank_prefix_len(self):
        n = 0
        for it in self.items:
            if it[0] == "bankdef":
                n += 1
            else:
                break
        return 0 if not self.use_banks else 0

    def operand_tree(self, v, allow_symbols=True):
        toks = self.operand_tokens(v, allow_symbols)
        if len(toks) == 1:
            t = toks[0]
            return t[1] if t[0] == "e" else ("var", 0, [t[1]])
        return ("par", toks[1][1])

    def gen_banks(self):
        rng = self.rng
        n = rng.randint(1, 3)
        outp = 0
        for i in range(n):
            unit = 8
            size = rng.choice([0x10, 0x20, 0x40, 0x100, 0x400])
            b = {"name": "bk%d" % i, "unit": unit, "addr": rng.choice([0, 0x100, 0x8000, 0xc000 + 0x100 * i]),
                 "size": size, "outp": outp, "fill": rng.random() < 0.3, "labelalign": None}
            if self.labelalign and rng.random() < 0.4:
                b["labelalign"] = rng.choice([16, 32, 64])
            outp += size * unit + rng.choice([0, 0, 8, 64])
            self.banks.append(b)
            self.items.append(("bankdef", i))

    def inject_fault(self, prog):
        """Exactly one fault that the language rules reject."""
        rng = self.rng
        items = prog["items"]
        instr_idx = [i for i, it in enumerate(items) if it[0] == "instr"]
        kind = rng.choice(["unknown-mnemonic", "out-of-range", "undefined-symbol", "tie", "dup-label", "data-range"])
        if kind == "unknown-mnemonic" and instr_idx:
            i = rng.choice(instr_idx)
            toks = list(items[i][1])
            toks[0] = ("t", toks[0][1] + "q", "lit")
            items[i] = ("instr", toks)
            self.fault = (kind, i)
        elif kind == "out-of-range":
            typed = [r for r in self.isa["rules"] if any(e[0] == "param" and e[2] is not None for e in r["pat"])]
            if typed:
                rule = rng.choice(typed)
                pos = rng.randint(0, len(items))
                items.insert(pos, self.gen_instr(rule, in_range=False))
                self.fault = (kind, pos)
        elif kind == "undefined-symbol":
            untyped = [r for r in self.isa["rules"] if any(e[0] == "param" for e in r["pat"])]
            if untyped:
                rule = rng.choice(untyped)
                toks = []
                done = False
                for el in rule["pat"]:
                    if el[0] == "param" and not done:
                        toks.append(("t", "undefined_sym", "sym"))
                        done = True
                    elif el[0] == "lit":
                        toks.append(("t", el[1], "lit"))
                    else:
                        toks.extend(self.instance([el], True))
                pos = rng.randint(0, len(items))
                items.insert(pos, ("instr", toks))
                self.fault = (kind, pos)
        elif kind == "tie":
            # two equally sized rules with the same pattern shape, both satisfied
            n = len(self.isa["rules"])
            op = rng.getrandbits(8)
            mn = "tie" + rng.choice(["", "x"])
            self.isa["rules"].append({"pat": [("lit", mn), ("param", "a", ("u", 8))],
                                      "prod": concat([lit_sized(rng, 8, op), ("var", 0, ["a"])]), "size": 16, "name": "r%d" % n})
            self.isa["rules"].append({"pat": [("lit", mn), ("param", "b", ("i", 8))],
                                      "prod": concat([lit_sized(rng, 8, op ^ 1), ("var", 0, ["b"])]), "size": 16, "name": "r%d" % (n + 1)})
            pos = rng.randint(0, len(items))
            items.insert(pos, ("instr", [("t", mn, "lit"), ("e", num(rng.randint(0, 255)))]))
            self.fault = (kind, pos)
        elif kind == "dup-label":
            labs = [it for it in items if it[0] == "label" and it[2] == 0]
            if labs:
                items.append(("label", rng.choice(labs)[1], 0))
                self.fault = (kind, len(items) - 1)
        elif kind == "data-range":
            w = rng.choice([4, 8, 16])
            v = rng.choice([(1 << w), -(1 << (w - 1)) - 1, (1 << w) + 5])
            pos = rng.randint(0, len(items))
            items.insert(pos, ("data", w, [num(v)]))
            self.fault = (kind, pos)


def gen_program(rng, cascade=False, banks=None, faults=True, labelalign=False, n_rules=None, n_items=None):
    isa = IsaGen(rng, cascade=cascade, n_rules=n_rules).gen()
    use_banks = rng.random() < 0.3 if banks is None else banks
    pg = ProgGen(rng, isa, banks=use_banks, faults=faults, labelalign=labelalign, n_items=n_items)
    prog = pg.gen()
    return prog


def gen_deep_cascade(rng):
    """A program whose jump sizes depend on each other through several passes: k forward/backward jumps with a
    short pc-relative form (guarded by assert) and a long absolute form, separated by fillers sized so that the
    distances sit near the short form's limit - shrinking one jump brings others into range."""
    lim = rng.choice([8, 16, 32, 127])
    d = ("par", ("bin", "-", ("var", 0, ["a"]), ("pc",)))
    cond = ("bin", "&&", ("bin", "<", d, num(lim)), ("bin", ">=", d, num(-lim)))
    op = rng.getrandbits(8)
    rules = [
        {"pat": [("lit", "jr"), ("param", "a", None)],
         "prod": ("block", [("call", "assert", [cond]), concat([lit_sized(rng, 8, op), ("sshort", d, num(8))])]), "size": 16, "name": "r0"},
        {"pat": [("lit", "jr"), ("param", "a", None)],
         "prod": concat([lit_sized(rng, 8, (op + 1) & 0xff), ("sshort", ("var", 0, ["a"]), num(24))]), "size": 32, "name": "r1"},
        {"pat": [("lit", "nop")], "prod": lit_sized(rng, 8), "size": 8, "name": "r2"},
    ]
    if rng.random() < 0.5:
        # a third, medium form selected by typed width
        rules.insert(1, {"pat": [("lit", "jr"), ("param", "a", ("u", 12))],
                         "prod": concat([lit_sized(rng, 8, (op + 2) & 0xff), lit_sized(rng, 4), ("var", 0, ["a"])]), "size": 24, "name": "r1b"})
        for i, r in enumerate(rules):
            r["name"] = "r%d" % i
    isa = {"rules": rules, "subs": {}, "comma_space": True}
    k = rng.randint(3, 14)
    items = []
    labels = ["t%d" % i for i in range(k)]
    order = list(range(k))
    slots = []
    for i in range(k):
        slots.append(("instr", [("t", "jr", "lit"), ("t", labels[rng.randrange(k)], "sym")]))
        for _ in range(rng.choice([0, 0, 1, 2])):
            slots.append(("instr", [("t", "nop", "lit")]))
        if rng.random() < 0.4:
            slots.append(("res", num(rng.choice([1, 2, lim // 2, lim - 3 if lim > 4 else 1, lim - 1]))))
    # sprinkle the labels between the slots
    pos = sorted(rng.sample(range(len(slots) + 1), min(k, len(slots) + 1)))
    out = []
    li = 0
    for j, sl in enumerate(slots):
        while li < len(pos) and pos[li] == j:
            out.append(("label", labels[li], 0))
            li += 1
        out.append(sl)
    while li < k:
        out.append(("label", labels[li], 0))
        li += 1
    return {"isa": isa, "banks": [], "items": out, "fault": None}
