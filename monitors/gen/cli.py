"""G_cli: command lines for the customasm driver, with a model of what the usage text promises.

Only spellings printed in usage_help.md are generated: `-f X`, `--format=X`, `-o F`, `--output=F`,
`-p`, `--print`, `-q`, `--quiet`, `-t N`/`-tN`, `--iters=N`, `-dN[=V]`, `--define=N[=V]`, `--color=on/off`,
`-h`, `-v`, `--debug-*`.
"""

# documented formats: name -> (extension, {param: (default, valid values or predicate name)})
FORMATS = {
    "binary": ("bin", {}),
    "annotated": ("txt", {"base": (16, [2, 4, 8, 16, 32, 64, 128]), "group": (2, "nonzero")}),
    "annotatedbin": ("txt", {}),
    "binstr": ("txt", {}), "hexstr": ("txt", {}), "bindump": ("txt", {}), "hexdump": ("txt", {}),
    "mif": ("txt", {}),
    "intelhex": ("txt", {"addr_unit": (8, [8, 16, 32])}),
    "deccomma": ("txt", {}), "hexcomma": ("txt", {}), "decspace": ("txt", {}), "hexspace": ("txt", {}),
    "decc": ("txt", {}), "hexc": ("txt", {}),
    "logisim8": ("txt", {}), "logisim16": ("txt", {}),
    "addrspan": ("txt", {}),
    "tcgame": ("txt", {"base": (16, [2, 16]), "group": (2, "nonzero")}),
    "tcgamebin": ("txt", {}),
    "symbols": ("txt", {}),
    "mesen-mlb": ("mlb", {}),
}
# equivalent canonical spelling of aliases (for content comparison)
ALIASES = {"annotatedbin": "annotated,base:2,group:8", "tcgamebin": "tcgame,base:2,group:8"}

BAD_FORMAT_NAMES = ["bin", "Binary", "annotate", "hex", "intel", "symbol", "mesen", "", "annotated ", "c99", "logisim", "tcgame2"]
BAD_PARAM_NAMES = ["bases", "grp", "unit", "addr", "x", "Base", ""]


def param_valid(spec, value_text):
    try:
        v = int(value_text)
    except ValueError:
        return False
    if value_text.strip() != value_text or value_text.startswith("+") or value_text.startswith("-"):
        return False
    if spec == "nonzero":
        return 0 < v < (1 << 31)
    return v in spec


def gen_format(rng, validity=None):
    """Returns (format string, expectation) where expectation = ("ok", name, {param: value}) or ("err",)."""
    want_ok = rng.random() < 0.75 if validity is None else validity
    name = rng.choice(list(FORMATS))
    ext, params = FORMATS[name]
    chosen = {}
    parts = [name]
    ok = True
    for pname, (default, spec) in params.items():
        if rng.random() < 0.6:
            if want_ok or rng.random() < 0.5:
                v = rng.choice(spec) if isinstance(spec, list) else rng.choice([1, 2, 3, 4, 8, 9, 16, 100])
                parts.append("%s:%d" % (pname, v))
                chosen[pname] = v
            else:
                bad = rng.choice(["0", "3", "-1", "1.5", "x", "", "99999999999999999999", "017", " 2"]) \
                    if spec != "nonzero" else rng.choice(["0", "-1", "x", "", "99999999999999999999999", "1.0"])
                parts.append("%s:%s" % (pname, bad))
                if not param_valid(spec, bad):
                    ok = False
                else:
                    chosen[pname] = int(bad)
    if not want_ok:
        r = rng.random()
        if r < 0.35:
            parts[0] = rng.choice(BAD_FORMAT_NAMES)
            ok = False
        elif r < 0.7:
            parts.append("%s:%d" % (rng.choice(BAD_PARAM_NAMES), rng.randint(0, 9)))
            ok = False
        elif r < 0.8:
            parts.append("base:1:2")
            ok = False
        elif r < 0.9 and not params:
            parts.append("base:16")
            ok = False
    rng_parts = parts[1:]
    if len(rng_parts) > 1 and rng.random() < 0.5:
        rng.shuffle(rng_parts)
    s = ",".join([parts[0]] + rng_parts)
    if ok:
        full = dict((p, d) for p, (d, _) in params.items())
        full.update(chosen)
        return s, ("ok", name, full)
    return s, ("err",)


def canonical_format(name, params):
    """Canonical format string understood by driver::parse_output_format for content comparison."""
    if name in ALIASES:
        return ALIASES[name]
    if params:
        return name + "," + ",".join("%s:%d" % (k, v) for k, v in sorted(params.items()))
    return name


def derive_name(input_name, ext):
    """Output name derived from the first input: its extension replaced (or appended)."""
    base = input_name
    slash = max(base.rfind("/"), base.rfind("\\"))
    fname = base[slash + 1:]
    dot = fname.rfind(".")
    if dot > 0:
        stem = base[:slash + 1] + fname[:dot]
    else:
        stem = base
    return (stem + "." + ext).replace("\\", "/")


def gen_group(rng, idx, validity=None):
    """One output group: returns (args, model) with model = dict(format, printout, output, fmt_expect)."""
    args = []
    model = {"format": None, "printout": False, "output": None, "fmt_expect": None}
    order = ["f", "o", "p"]
    rng.shuffle(order)
    for o in order:
        if o == "f" and rng.random() < 0.8:
            s, exp = gen_format(rng, validity)
            args += ["-f", s] if rng.random() < 0.5 else ["--format=" + s]
            model["format"] = s
            model["fmt_expect"] = exp
        elif o == "o" and rng.random() < 0.5:
            name = rng.choice(["out%d.bin" % idx, "o%d.txt" % idx, "dir/out%d.x" % idx, "result%d" % idx])
            args += ["-o", name] if rng.random() < 0.5 else ["--output=" + name]
            model["output"] = name
        elif o == "p" and rng.random() < 0.35:
            args += [rng.choice(["-p", "--print"])]
            model["printout"] = True
    return args, model


def gen_globals(rng, defines=None):
    """Global options: returns (args, model)."""
    args = []
    model = {"quiet": False, "iters": 10, "iters_ok": True, "color_ok": True, "defines": [], "help": False, "version": False,
             "opt_static": True, "opt_matcher": True, "debug_iters": False}
    if rng.random() < 0.6:
        args.append(rng.choice(["-q", "--quiet"]))
        model["quiet"] = True
    if rng.random() < 0.35:
        r = rng.random()
        if r < 0.8:
            n = rng.choice([1, 2, 3, 5, 10, 11, 30])
            args += rng.choice([[("-t", str(n))], ["-t%d" % n], ["--iters=%d" % n]])
            model["iters"] = n
        else:
            bad = rng.choice(["0", "-1", "x", "1.5", ""])
            args += [rng.choice(["--iters=" + bad, "-t" + bad if bad else "--iters="])]      # never a bare `-t`
            model["iters_ok"] = False
    if rng.random() < 0.2:
        v = rng.choice(["on", "off", "on", "off", "yes", "", "ON"])
        args.append("--color=" + v)
        if v not in ("on", "off"):
            model["color_ok"] = False
    if rng.random() < 0.15:
        args.append("--debug-no-optimize-static")
        model["opt_static"] = False
    if rng.random() < 0.15:
        args.append("--debug-no-optimize-matcher")
        model["opt_matcher"] = False
    if rng.random() < 0.05:
        args.append("--debug-iters")
        model["debug_iters"] = True
    for d in defines or []:
        args.append(d)
    # command-line defines (names may or may not exist in the program; C16 checks their meaning,
    # here they widen the option space for C03/C18)
    if rng.random() < 0.25:
        for _ in range(rng.randint(1, 2)):
            name = rng.choice(["x", "k0", "k1", "lbl0", "foo", "val", "val.b", "K1", "start", "_", "entry", "entry", "x", "val"])
            val = rng.choice(["", "", "=5", "=0x10", "=-3", "=true", "=false", "=", "=-", "=abc", "=1=2", "=0b101", "=%11", "=$ff", "=66", "=0x42", "=-0xff", "=-0x81", "=-0b11", "=-0x7f", "=0xff", "=0x1ff",
                              "=0x", "=0b", "=0o", "=0x_", "=$", "=%", "=_", "=-0x", "=0x__1", "=1_0"])
            args.append(rng.choice(["-d", "--define="]) + name + val)
            model["defines"].append((name, val))
    return args, model


def gen_argv(rng, inputs, max_groups=4, validity=None, with_help=True):
    """Full command line. Returns (argv, model)."""
    ngroups = rng.choice([1, 1, 1, 2, 2, 3, 4][:max(1, max_groups * 2 - 1)])
    groups = []
    gargs, gmodel = gen_globals(rng)
    # global options and inputs are distributed over the groups ("honoured wherever they appear")
    per_group_args = []
    for g in range(ngroups):
        a, m = gen_group(rng, g, validity)
        groups.append(m)
        per_group_args.append(a)
    for a in gargs:
        tgt = per_group_args[rng.randrange(ngroups)]
        if isinstance(a, tuple):
            tgt.extend(a)          # option with a detached value stays together
        else:
            tgt.append(a)
    in_group = 0 if rng.random() < 0.8 else rng.randrange(ngroups)
    for name in inputs:
        pos = rng.randint(0, len(per_group_args[in_group]))
        # never split an option from its detached value
        while pos > 0 and per_group_args[in_group][pos - 1] in ("-f", "-o", "-t"):
            pos -= 1
        per_group_args[in_group].insert(pos, name)
    if with_help and rng.random() < 0.03:
        per_group_args[rng.randrange(ngroups)].append(rng.choice(["-h", "--help"]))
        gmodel["help"] = True
    if with_help and rng.random() < 0.03:
        per_group_args[rng.randrange(ngroups)].append(rng.choice(["-v", "--version"]))
        gmodel["version"] = True
    argv = ["customasm"]
    for g, a in enumerate(per_group_args):
        if g > 0:
            argv.append("--")
        argv += a
    gmodel["groups"] = groups
    gmodel["inputs"] = list(inputs)
    return argv, gmodel


def predict(model):
    """What the usage text promises: ("error-before-assembly",) | ("help",) | ("version",) |
    ("run", [per group: ("print", fmt) | ("write", name, fmt)])  where fmt = canonical format string."""
    for g in model["groups"]:
        if g["fmt_expect"] is not None and g["fmt_expect"][0] == "err":
            return ("error-before-assembly",)
    if not model["iters_ok"] or not model["color_ok"]:
        return ("error-before-assembly",)
    plan = []
    for g in model["groups"]:
        if g["fmt_expect"] is None:
            name, params = ("annotated", {"base": 16, "group": 2}) if g["printout"] else ("binary", {})
        else:
            _, name, params = g["fmt_expect"]
        fmt = canonical_format(name, params)
        ext = FORMATS[name][0]
        if g["printout"]:
            plan.append(("print", fmt))
        elif g["output"] is not None:
            plan.append(("write", g["output"], fmt))
        elif model["inputs"]:
            derived = derive_name(model["inputs"][0], ext)
            if derived == model["inputs"][0]:
                return ("error-before-assembly",)
            plan.append(("write", derived, fmt))
        else:
            plan.append(("none", fmt))
    if model["help"]:
        return ("help",)
    if model["version"]:
        return ("version",)
    if not model["inputs"]:
        return ("error-no-input",)
    return ("run", plan)
