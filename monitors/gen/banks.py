"""G_bank: bank configurations and item sequences (structured programs for model/asm.py)."""
from gen import isa as G
from gen.isa import num, lit_sized


def fixed_isa(rng):
    rules = []
    for i, (mn, size) in enumerate([("nop", 8), ("w16", 16), ("b3", 3), ("b1", 1), ("w24", 24)]):
        rules.append({"pat": [("lit", mn)], "prod": lit_sized(rng, size), "size": size, "name": "r%d" % i})
    rules.append({"pat": [("lit", "ldpc")], "prod": G.concat([lit_sized(rng, 8), ("sshort", ("pc",), num(8))]), "size": 16, "name": "r5"})
    return {"rules": rules, "subs": {}, "comma_space": True}


def gen_banks(rng):
    n = rng.randint(1, 5)
    banks = []
    cursor = 0
    for i in range(n):
        unit = rng.choice([8, 8, 8, 8, 16, 32, 4, 1, 3, 5, 12, 24])
        size_units = rng.choice([1, 2, 3, 4, 8, 16, 0x20, 0x100])
        has_size = rng.random() < 0.85
        has_outp = rng.random() < 0.85
        r = rng.random()
        if r < 0.6:
            outp = cursor                     # tightly packed
        elif r < 0.8:
            outp = cursor + rng.choice([1, 3, 8, 64])   # gap
        elif r < 0.9:
            outp = max(0, cursor - rng.choice([1, 2, 8]))   # overlapping the previous window
        else:
            outp = rng.choice([0, 8, 16, 100])
        b = {"name": "bk%d" % i, "unit": unit, "addr": rng.choice([0, 0, 1, 0x10, 0x100, 0x8000, -1, -3, -4, -0x10, -0x100]),
             "size": size_units if has_size else None, "outp": outp if has_outp else None,
             "fill": rng.random() < 0.35, "labelalign": rng.choice([None, None, None, unit, 2 * unit, 16, 32]),
             "show_bits": rng.random() < 0.3}
        if has_size and rng.random() < 0.3:
            # the extent written as an end address
            b["size_as_end"] = True
            if rng.random() < 0.08:
                b["size"] = -rng.choice([1, 2, 0x20])          # ends before it starts: the program must be rejected
        if has_outp:
            cursor = max(cursor, outp + (size_units * unit if has_size else 64))
        banks.append(b)
    return banks


def gen_items(rng, banks, isa):
    items = []
    order = list(range(len(banks)))
    if rng.random() < 0.3:
        rng.shuffle(order)
    for i in order:
        items.append(("bankdef", i))
    nitems = rng.randint(2, 25)
    nlabels = 0
    cur = order[-1]
    for _ in range(nitems):
        r = rng.random()
        b = banks[cur]
        unit = b["unit"]
        if r < 0.12 and len(banks) > 1:
            cur = rng.randrange(len(banks))
            items.append(("bank", banks[cur]["name"]))
        elif r < 0.42:
            w = rng.choice([unit, unit, 2 * unit, 8, 16, 1, 3, 4, 24]) or 8
            n = rng.randint(1, 3)
            items.append(("data", w, [num(rng.getrandbits(w)) if w < 30 else num(rng.getrandbits(16)) for _ in range(n)]))
        elif r < 0.52:
            items.append(("instr", [("t", rng.choice(["nop", "w16", "b3", "b1", "w24", "ldpc"]), "lit")]))
        elif r < 0.62:
            items.append(("res", num(rng.choice([0, 0, 1, 2, 3, 7]))))
        elif r < 0.70:
            items.append(("align", num(rng.choice([unit, 2 * unit, 8, 16, 32, 3 * unit]) or 8)))
        elif r < 0.82:
            # forward / backward #addr relative to the bank start
            a = b["addr"] + rng.choice([0, 0, 1, 2, 3, 4, 8, 0x10, b["size"] or 5, (b["size"] or 5) - 1])
            if rng.random() < 0.08:
                a = b["addr"] - 1 if b["addr"] < 0 else max(0, b["addr"] - 1)
            items.append(("addr", ("int", a, None, "0x%x" % a) if rng.random() < 0.5 and a >= 0 else num(a)))
        elif r < 0.95 and nlabels > 0 and rng.random() < 0.3:
            # a nested label: never padded by #labelalign, so it must itself sit on an address boundary
            items.append(("label", "s%d" % len(items), 1))
        elif r < 0.95:
            items.append(("label", "L%d" % nlabels, 0))
            nlabels += 1
            if rng.random() < 0.4:
                items.append(("data", unit if unit <= 64 else 8, [("sshort", ("var", 0, ["L%d" % (nlabels - 1)]), num(unit if unit <= 64 else 8))]))
        else:
            items.append(("const", "K%d" % nlabels, 0, num(rng.randint(0, 99))))
            nlabels += 1
    return items


def gen_program(rng):
    isa = fixed_isa(rng)
    if rng.random() < 0.12:
        banks = []
        items = gen_items(rng, [dict(G_DEFAULT)], isa)
        items = [it for it in items if it[0] not in ("bankdef", "bank")]
    else:
        banks = gen_banks(rng)
        items = gen_items(rng, banks, isa)
        if rng.random() < 0.05:
            # something in the default bank before the first bankdef
            items.insert(0, ("data", 8, [num(1)]))
    return {"isa": isa, "banks": banks, "items": items, "fault": None}


G_DEFAULT = {"name": "#global", "unit": 8, "addr": 0, "size": None, "outp": 0, "fill": False, "labelalign": None}
