"""G_if: conditional-assembly trees with constants and command-line defines, the one-world twin and
a direct interpreter of arm selection (independent of customasm)."""
from model import expr as M
from gen.isa import num


class Unknown(Exception):
    pass


CONSTS = ["A", "B", "C", "D", "E", "F"]


def gen_cond(rng, names, depth=2):
    """A boolean expression over constants."""
    r = rng.random()
    if depth <= 0 or r < 0.35:
        n = rng.choice(names)
        k = rng.random()
        if k < 0.5:
            return ("bin", rng.choice(["==", "!=", "<", ">=", ">"]), ("var", 0, [n]), num(rng.randint(-2, 6)))
        if k < 0.7:
            return ("bin", "==", ("bin", "&", ("var", 0, [n]), num(1)), num(rng.randint(0, 1)))
        if k < 0.85:
            return ("var", 0, ["FLAG" + str(rng.randint(0, 1))])
        if k < 0.90:
            # a dot-relative reference: conditions are decided from constants alone, before any label context exists,
            # so this can never be decided - whatever global or nested constant carries the same short name
            return ("bin", rng.choice(["==", "!=", "<"]), ("var", rng.choice([1, 1, 2]), [n]), num(rng.randint(-2, 6)))
        return ("bool", rng.random() < 0.5)
    if r < 0.55:
        return ("bin", rng.choice(["&&", "||"]), gen_cond(rng, names, depth - 1), gen_cond(rng, names, depth - 1))
    if r < 0.65:
        return ("not", ("par", gen_cond(rng, names, depth - 1)))
    return gen_cond(rng, names, 0)


class Gen:
    def __init__(self, rng):
        self.rng = rng
        self.marker = 0
        self.nlabel = 0
        self.nconst = 0
        self.known = list(CONSTS[:2])      # names that conditions and expressions may mention
        self.fn_consts = []                # constants defined through a user function: only referenced by data
        self.use_fn = rng.random() < 0.35

    def mark(self):
        self.marker += 1
        return ("data", self.marker & 0xff)

    def fresh(self):
        self.nconst += 1
        return "V%d" % self.nconst

    def const_node(self, name=None):
        rng = self.rng
        shared = name is not None
        name = name or self.fresh()
        k = rng.random()
        if k < 0.55 or not self.known:
            v = rng.randint(-3, 7)
            tree = num(v) if rng.random() < 0.7 or v < 0 else ("int", v, 8, "0x%02x" % v)
        else:
            tree = ("bin", rng.choice(["+", "-", "*"]), ("var", 0, [rng.choice(self.known)]), num(rng.randint(0, 3)))
        if self.use_fn and not shared and rng.random() < 0.3 and name not in self.known:
            # defined through a user function (never used by a condition: functions are not evaluated when arms are chosen)
            self.fn_consts.append(name)
            return ("const", name, ("call", "fadd", [tree]))
        if name not in self.known:
            self.known.append(name)
        return ("const", name, tree)

    def body(self, depth, top=False, shared=None):
        """List of nodes: ("data", byte) ("const", name, tree) ("label", name, level)
        ("if", [(cond, body)...], else_body|None) ("ref", name) (emits #d16 (name)`16)."""
        rng = self.rng
        nodes = []
        if top:
            # the base constants every tree has (defines may override them)
            order = [("const", "A", num(rng.randint(0, 3))), ("const", "B", num(rng.randint(0, 3))),
                     ("const", "FLAG0", ("bool", rng.random() < 0.5)), ("const", "FLAG1", ("bool", rng.random() < 0.5))]
            tail = [order.pop(rng.randrange(len(order)))] if rng.random() < 0.5 else []
            nodes.extend(order)
        else:
            tail = []
        if shared:
            # the same name declared in several arms of one chain (only one arm is ever live)
            nodes.append(self.const_node(shared))
        for _ in range(rng.randint(1, 4) if not top else rng.randint(3, 8)):
            r = rng.random()
            if r < 0.35:
                nodes.append(self.mark())
            elif r < 0.52:
                nodes.append(self.const_node())
            elif r < 0.62 and self.known:
                nodes.append(("ref", rng.choice(self.known + self.fn_consts)))
            elif r < 0.70:
                self.nlabel += 1
                nodes.append(("label", "L%d" % self.nlabel, 0))
                if rng.random() < 0.5:
                    nodes.append(("label", "loc", 1))
                elif rng.random() < 0.4:
                    # a nested constant that shares its short name with a global one
                    nodes.append(("raw", ".%s = %d" % (rng.choice(["A", "B", "FLAG0"]), rng.randint(0, 9))))
            elif depth > 0:
                arms = []
                sh = self.fresh() if rng.random() < 0.4 else None
                names = list(self.known) if rng.random() < 0.4 else ["A", "B"]
                for _ in range(rng.choice([1, 1, 2, 2, 3, 5])):
                    arms.append((gen_cond(rng, names if rng.random() < 0.9 else names + ["UNDECL"]), self.body(depth - 1, shared=sh)))
                els = self.body(depth - 1, shared=sh) if rng.random() < 0.5 else None
                nodes.append(("if", arms, els))
                if sh and els is not None and rng.random() < 0.7:
                    nodes.append(("ref", sh))
                if rng.random() < 0.12:
                    # a nested declaration written right after the chain (re-parenting situation)
                    nodes.append(("label", "aft%d" % self.nlabel, 1))
            else:
                nodes.append(self.mark())
        nodes.extend(tail)
        if top and self.use_fn:
            nodes.insert(rng.choice([0, len(nodes)]), ("raw", "#fn fadd(v) => v + 1"))
        return nodes


def render(nodes, indent=0):
    pad = "    " * indent
    out = []
    for n in nodes:
        k = n[0]
        if k == "data":
            out.append(pad + "#d8 0x%02x" % n[1])
        elif k == "const":
            out.append(pad + "%s = %s" % (n[1], M.show(n[2])))
        elif k == "label":
            out.append(pad + "." * n[2] + n[1] + ":")
        elif k == "ref":
            out.append(pad + "#d16 (%s)`16" % n[1])
        elif k == "raw":
            out.append(pad + n[1])
        elif k == "if":
            for i, (cond, body) in enumerate(n[1]):
                out.append(pad + ("#if " if i == 0 else "#elif ") + M.show(cond))
                out.append(pad + "{")
                out.append(render(body, indent + 1))
                out.append(pad + "}")
            if n[2] is not None:
                out.append(pad + "#else")
                out.append(pad + "{")
                out.append(render(n[2], indent + 1))
                out.append(pad + "}")
    return "\n".join(x for x in out if x != "")


class World:
    """Direct interpreter: which arm of every chain is live, under a define assignment."""

    def __init__(self, nodes, defines):
        self.nodes = list(nodes)
        self.defines = dict(defines)       # name -> value tuple
        self.values = {}
        self.selected = []                 # log of (cond text, arm index or 'else' or None)
        self.round_of = {}                 # id(node) -> round in which it became visible at top level

    def const_nodes(self):
        return [n for n in self.nodes if n[0] == "const"]

    def eval_consts(self):
        """Constants visible at top level, to a fixed point. Duplicate names are an error."""
        names = [n[1] for n in self.const_nodes()]
        if len(set(names)) != len(names):
            raise Reject("duplicate constant")
        vals = {}
        progress = True
        while progress:
            progress = False
            for n in self.const_nodes():
                name = n[1]
                if name in vals:
                    continue
                if name in self.defines:
                    vals[name] = self.defines[name]
                    progress = True
                    continue
                try:
                    vals[name] = M.ev(n[2], _Env(vals))
                    progress = True
                except Unknown:
                    pass
        return vals

    def run(self):
        """Returns the flat list of live nodes (one world) or raises Reject."""
        for rnd in range(1, 200):
            vals = self.eval_consts()
            changed = False
            new = []
            for n in self.nodes:
                if n[0] != "if":
                    new.append(n)
                    continue
                arms, els = n[1], n[2]
                cond, body = arms[0]
                try:
                    v = M.ev(cond, _Env(vals))
                except Unknown:
                    new.append(n)
                    continue
                if v[0] != "bool":
                    new.append(n)          # stays unresolved -> error at the end
                    continue
                changed = True
                if v[1]:
                    new.extend(body)
                    for x in body:
                        self.round_of[id(x)] = rnd
                elif len(arms) > 1:
                    new.append(("if", arms[1:], els))
                elif els is not None:
                    new.extend(els)
                    for x in els:
                        self.round_of[id(x)] = rnd
            self.nodes = new
            if not changed:
                break
        if any(n[0] == "if" for n in self.nodes):
            raise Reject("unresolved condition")
        vals = self.eval_consts()
        for name in self.defines:
            if name not in [n[1] for n in self.nodes if n[0] == "const"]:
                raise Reject("define names no declared constant: " + name)
        return self.nodes


class Reject(Exception):
    pass


class _Env(M.Env):
    def __init__(self, vals):
        M.Env.__init__(self)
        self.vals = vals

    def sym(self, level, names):
        if level == 0 and len(names) == 1 and names[0] in self.vals:
            return self.vals[names[0]]
        raise Unknown()

    def pc(self):
        raise Unknown()

    def user_call(self, name, args):
        if name == "fadd" and len(args) == 1 and args[0][0] == "int":
            return ("int", args[0][1] + 1, None)
        raise Unknown()


def reparent_trigger(world, live):
    """Known finding of C16: a nested declaration became visible in an earlier round than the
    level-0 declaration that precedes it in the final program (it was bound to the previous global)."""
    last_global_round = None
    for n in live:
        if n[0] == "const" or (n[0] == "label" and n[2] == 0):
            last_global_round = world.round_of.get(id(n), 0)
        elif n[0] == "label" and n[2] >= 1:
            if last_global_round is not None and world.round_of.get(id(n), 0) < last_global_round:
                return True
    return False


def expected_bits(world, live):
    """Output the language prescribes for the one live world: (bit length, value) or None if some referenced
    constant has no integer value there."""
    vals = world.eval_consts()
    n, v = 0, 0
    for node in live:
        if node[0] == "data":
            n, v = n + 8, (v << 8) | node[1]
        elif node[0] == "ref":
            x = vals.get(node[1])
            if x is None or x[0] != "int":
                return None
            n, v = n + 16, (v << 16) | (x[1] & 0xffff)
    return n, v
