"""G_chain: padding chains - items whose *size* depends on labels further down while their numeric value is always zero.

    [ld target]                     optional reader of a label that moves while the chain settles
    fill (e1 - s1)
target:  #d8 ..
s1:      fill (e2 - s2)  [+ extra data]
e1:      #d8 ..
s2:      fill (e3 - s3)
e2:      ...
sd:      #d8 z bytes
ed:

fill {n} emits max(1, n) zero bytes. Sizes are determined from the end backwards, so there is exactly one consistent
layout and the expected output is computed here in closed form; it takes about d + 2 passes to reach, and in most of
those passes the only things that change are label addresses and encoding *sizes*.
"""


def gen_padding_chain(rng):
    d = rng.randint(1, 6)
    z = rng.randint(0, 5)
    reader = rng.random() < 0.5
    extras = [rng.choice([0, 0, 1, 2]) for _ in range(d)]         # data bytes between s_i and its fill
    style = rng.choice(["slice", "tern"])
    if style == "slice":
        rule = "    fill {n} => n <= 1 ? 0x00 : 0x00[(n * 8 - 1):0]"
    else:
        rule = "    fill {n} => n <= 1 ? 0x00 : (0x00 @ 0x00[((n - 1) * 8 - 1):0])"
    lines = ["#ruledef", "{", "    ld {x} => 0xaa @ x`8", rule, "}"]
    # sizes from the end backwards: inner[i] = number of bytes between s_i and e_i
    tail_data = [rng.randint(1, 255) for _ in range(z)]
    inner = [0] * (d + 1)
    fsize = [0] * (d + 1)
    inner[d] = z
    for i in range(d, 0, -1):
        fsize[i] = max(1, inner[i])                  # fill_i sits before s_i ... it measures (e_i - s_i)
        if i > 1:
            inner[i - 1] = extras[i - 1] + fsize[i]
    out = []
    if reader:
        lines.append("ld target")
    lines.append("fill (e1 - s1)")
    # forward layout for the expected bytes
    pos = 2 if reader else 0
    pos += fsize[1]
    target = pos
    if reader:
        out += [0xaa, target & 0xff]
    out += [0] * fsize[1]
    lines.append("target:")
    mark = rng.randint(1, 255)
    lines.append("#d8 0x%02x" % mark)
    out.append(mark)
    for i in range(1, d + 1):
        lines.append("s%d:" % i)
        if i < d:
            for _ in range(extras[i]):
                b = rng.randint(1, 255)
                lines.append("#d8 0x%02x" % b)
                out.append(b)
            lines.append("fill (e%d - s%d)" % (i + 1, i + 1))
            out += [0] * fsize[i + 1]
        else:
            if tail_data:
                lines.append("#d8 " + ", ".join(str(b) for b in tail_data))
            out += tail_data
        lines.append("e%d:" % i)
        if i < d:
            m = rng.randint(1, 255)
            lines.append("#d8 0x%02x" % m)
            out.append(m)
    return "\n".join(lines) + "\n", bytes(out).hex(), {"depth": d, "reader": reader, "tail": z}
