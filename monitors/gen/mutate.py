"""G_mut: token-level mutator over source texts (corpus files and generated programs)."""
import re

TOKEN_RE = re.compile(
    r'"[^"\n]*"|;\*.*?\*;|;[^\n]*|[A-Za-z_][A-Za-z0-9_]*|\d[A-Za-z0-9_]*|[ \t]+|\n|=>|->|<-|==|!=|<=|>=|<<|>>>|>>|&&|\|\||::|.',
    re.S)

DICT = [
    "#ruledef", "#subruledef", "#bankdef", "#bank", "#d8", "#d16", "#d32", "#d", "#d1", "#d0", "#res", "#align", "#addr",
    "#include", "#once", "#if", "#elif", "#else", "#fn", "#const", "#noemit", "#assert", "#bits", "#labelalign",
    "#outp", "#size", "#fill", "#addr_end",
    "{", "}", "(", ")", "[", "]", "{}", "=>", "=", ":", ",", ".", "..", "@", "`", "$", "?", "!", "~",
    "+", "-", "*", "/", "%", "<<", ">>", ">>>", "&", "|", "^", "&&", "||", "==", "!=", "<", "<=", ">", ">=", "->", "<-", "::",
    "asm", "true", "false", "assert", "le", "sizeof", "strlen", "utf8", "ascii", "utf16le", "utf32be",
    "incbin", "incbinstr", "inchexstr", "pc",
    "0", "1", "2", "7", "8", "9", "15", "16", "31", "32", "63", "64", "65", "127", "128", "255", "256", "65535", "65536",
    "0x0", "0xff", "0x100", "0xffff", "0b1", "0b0", "0o7", "$ff", "%101", "0x", "0b", "1_000", "0x_", "1048575",
    "\"\"", "\"abc\"", "\"\\n\"", "\"\\x41\"", "\"\\u{1f600}\"", "\"\\", "\"", "'", "\\",
    "u8", "s8", "i8", "u0", "s0", "i1", "u16", "x", "a", "lbl", ".", ".x", "x.y",
    "\n", "\n\n", " ", "\t", "\r\n", ";", ";*", "*;", "; comment\n",
]

NONASCII = ["é", "ß", "中", "😀", "\u00a0", "\u200b", "\ufeff", "ÿ", "Ω", "\u0301", "\u2028"]


def tokenize(text):
    return TOKEN_RE.findall(text)


def mutate(rng, text, others=None, n_mut=None, nonascii=True):
    """Returns a mutated text. `others` = list of other texts to splice lines from."""
    toks = tokenize(text)
    if not toks:
        toks = ["\n"]
    n = n_mut or rng.choice([1, 1, 1, 2, 2, 3, 5])
    for _ in range(n):
        r = rng.random()
        i = rng.randrange(len(toks)) if toks else 0
        if r < 0.17 and toks:
            del toks[i]
        elif r < 0.30 and toks:
            toks.insert(i, toks[i])
        elif r < 0.42 and len(toks) > 1:
            j = rng.randrange(len(toks))
            toks[i], toks[j] = toks[j], toks[i]
        elif r < 0.62:
            toks.insert(i, rng.choice(DICT))
        elif r < 0.70 and toks:
            toks[i] = rng.choice(DICT)
        elif r < 0.78 and nonascii:
            toks.insert(i, rng.choice(NONASCII))
        elif r < 0.84 and others:
            lines = rng.choice(others).split("\n")
            if lines:
                k = rng.randrange(len(lines))
                toks.insert(i, "\n" + "\n".join(lines[k:k + rng.randint(1, 4)]) + "\n")
        elif r < 0.88 and toks:
            # truncate
            cut = rng.randrange(len(toks))
            toks = toks[:cut] if rng.random() < 0.5 else toks[cut:]
            if not toks:
                toks = ["\n"]
        elif r < 0.93 and toks:
            # small number tweak
            for k in range(i, min(len(toks), i + 40)):
                if toks[k][:1].isdigit():
                    toks[k] = rng.choice(["0", "1", "8", "9", "255", "256", "65536", "0xff", "0x100", "1048575", toks[k] + "0"])
                    break
        else:
            # duplicate a line
            lines = "".join(toks).split("\n")
            k = rng.randrange(len(lines))
            lines.insert(k, lines[k])
            toks = tokenize("\n".join(lines)) or ["\n"]
    out = "".join(toks)
    # keep created literals modest: C19 owns huge magnitudes
    out = re.sub(r"\d{8,}", lambda m: m.group(0)[:7], out)
    return out
