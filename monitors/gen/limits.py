"""G_lim: directed families of inputs parameterised by a magnitude k (nesting depth, recursion cycle
length, 2^k operand magnitudes). Each family returns (files, expectation) where expectation is
  ("error",)                  an error diagnostic is the only acceptable outcome
  ("value", hexstr)           if accepted, `-f hexstr` output must be exactly this
  ("either", hexstr)          error or exactly this output
"""

RULES = "#ruledef\n{\n    emit {x: u8} => x\n    ld {x} => 0x55 @ x`8\n}\n"


def pow2(k):
    return 1 << k


def fam_paren(k):
    return {"main.asm": "#d8 " + "(" * k + "1" + ")" * k + "\n"}, ("either", "01")


def fam_block(k):
    return {"main.asm": "#d8 " + "{" * k + "1" + "}" * k + "\n"}, ("either", "01")


def fam_unary_neg(k):
    return {"main.asm": "#d8 (" + "-" * k + "1)[7:0]\n"}, ("either", "01" if k % 2 == 0 else "ff")


def fam_unary_not(k):
    return {"main.asm": "#d8 (" + "!" * k + "1)[7:0]\n"}, ("either", "01" if k % 2 == 0 else "fe")


def fam_ternary_false(k):
    e = "0xff"
    parts = "".join("1 == 0 ? %d : " % (i & 0x7f) for i in range(k))
    return {"main.asm": "#d8 " + parts + e + "\n"}, ("either", "ff")


def fam_ternary_true(k):
    s = "0x7e"
    for i in range(k):
        s = "(1 == 1 ? %s : 0)" % s if i % 2 else "1 == 1 ? %s : 0" % s if i == k - 1 else "(1 == 1 ? %s : 0)" % s
    return {"main.asm": "#d8 " + s + "\n"}, ("either", "7e")


def fam_binary_chain(k):
    return {"main.asm": "#d8 (" + " + ".join(["1"] * k) + ")[7:0]\n"}, ("either", "%02x" % (k & 0xff))


def fam_concat_chain(k):
    return {"main.asm": "x = " + " @ ".join(["0x1"] * k) + "\n#d8 x[7:0]\n"}, ("either", "11" if k >= 2 else "01")


def fam_call_nest(k):
    return {"main.asm": "#d8 " + "le(" * k + "0x5a" + ")" * k + "\n"}, ("either", "5a")


def fam_slice_nest(k):
    return {"main.asm": "#d8 " + "(" * k + "0xa5" + "[7:0])" * k + "\n"}, ("either", "a5")


def fam_if_nest(k):
    return {"main.asm": "#if true\n{\n" * k + "#d8 0x42\n" + "}\n" * k}, ("either", "42")


def fam_elif_chain(k):
    s = "#if false\n{\n#d8 0\n}\n" + "#elif false\n{\n#d8 1\n}\n" * k + "#else\n{\n#d8 0x43\n}\n"
    return {"main.asm": s}, ("either", "43")


def eval_depth_max():
    """The evaluation recursion limit as the source declares it (expr::EVAL_RECURSION_DEPTH_MAX): expectations at the
    boundary follow the declared constant, so changing the constant is not an alarm but an off-by-one around it is."""
    import re
    import lib
    try:
        m = re.search(r"EVAL_RECURSION_DEPTH_MAX\s*:\s*usize\s*=\s*(\d+)", open(lib.REPO + "/src/expr/mod.rs").read())
        return int(m.group(1)) if m else None
    except OSError:
        return None


def depth_expect(k, limit, value):
    if limit is None:
        return ("either", value)
    return ("value", value) if k <= limit else ("error",)


def fam_asm_nest(k):
    rules = ["    emit {x: u8} => x"] + ["    m%d {x} => asm { %s {x} }" % (i, "m%d" % (i + 1) if i + 1 < k else "emit") for i in range(k)]
    return {"main.asm": "#ruledef\n{\n" + "\n".join(rules) + "\n}\nm0 7\n"}, depth_expect(k, (eval_depth_max() or 0) // 2 or None, "07")


def fam_fn_nest(k):
    fns = ["#fn f%d(v) => %s" % (i, "f%d(v)" % (i + 1) if i + 1 < k else "v") for i in range(k)]
    return {"main.asm": "\n".join(fns) + "\n#d8 f0(9)\n"}, depth_expect(k, eval_depth_max(), "09")


def fam_include_chain(k):
    files = {"main.asm": '#include "f0.asm"\n'}
    for i in range(k):
        files["f%d.asm" % i] = ('#include "f%d.asm"\n' % (i + 1)) if i + 1 < k else "#d8 0x44\n"
    return files, ("either", "44")


def fam_cycle_fn(k):
    fns = ["#fn g%d(v) => g%d(v)" % (i, (i + 1) % k) for i in range(k)]
    return {"main.asm": "\n".join(fns) + "\n#d8 g0(1)\n"}, ("error",)


def fam_cycle_asm(k):
    rules = ["    c%d {x} => asm { c%d {x} }" % (i, (i + 1) % k) for i in range(k)]
    return {"main.asm": "#ruledef\n{\n" + "\n".join(rules) + "\n}\nc0 1\n"}, ("error",)


def fam_cycle_rule_expr(k):
    # rules whose production calls itself through a constant chain: constants c_i = c_{i+1}
    cs = ["c%d = c%d + 1" % (i, (i + 1) % k) for i in range(k)]
    return {"main.asm": "\n".join(cs) + "\n#d8 c0\n"}, ("error",)


def fam_cycle_subrule(k):
    subs = []
    for i in range(k):
        subs.append("#subruledef sr%d\n{\n    {x: sr%d} + => 0x00\n    z => 0x01\n}" % (i, (i + 1) % k))
    return {"main.asm": "\n".join(subs) + "\n#ruledef\n{\n    op {a: sr0} => a\n}\nop z\n"}, ("either", "01")


def fam_cycle_include(k):
    files = {"main.asm": '#include "i0.asm"\n'}
    for i in range(k):
        files["i%d.asm" % i] = '#include "i%d.asm"\n' % ((i + 1) % k)
    return files, ("error",)


CYCLE_ENTRIES = {
    "instruction": ["c0 1"],
    "data-asm": ["#d8 asm { c0 1 }"],
    "constant-asm": ["val = asm { c0 1 }", "#d8 val"],
    "res-asm": ["#res asm { c0 1 }"],
    "addr-asm": ["#addr asm { c0 1 }"],
    "align-asm": ["#align asm { c0 1 }"],
    "assert-asm": ["#assert asm { c0 1 } == 0", "#d8 1"],
    "argument-asm": ["emit asm { c0 1 }"],
    "fn-asm": ["#fn h(v) => asm { c0 {v} }", "#d8 h(1)"],
    "fn-fn-asm": ["#fn h(v) => asm { c0 {v} }", "#fn hh(v) => h(v)", "#d8 hh(1)"],
    "nested-asm": ["#d8 asm { emit asm { c0 1 } }"],
    "later-label": ["#d8 asm { c0 end }", "end:"],
}


def fam_cycle_entry(entry):
    """Recursion cycle of length L (k % 10) through rules in shape k // 10 (1: rule -> asm -> rule, 2: rule -> function
    -> asm -> rule, 3: rule -> block-local = asm -> rule, 4: parameterless rule -> asm -> rule, 5: rule -> asm with a constant argument),
    entered from the given context."""
    def fn(k):
        shape, n = k // 10, k % 10
        rules, fns = ["    emit {x} => x`8"], []
        for i in range(n):
            nxt = "c%d" % ((i + 1) % n)
            if shape == 4:
                # no parameter at all: nothing is substituted into the block
                rules.append("    c%d => asm { %s }" % (i, nxt))
            elif shape == 5:
                # a parameter exists but the block passes a constant on, so again nothing is substituted
                rules.append("    c%d {x} => asm { %s 1 }" % (i, nxt))
            elif shape == 1:
                rules.append("    c%d {x} => asm { %s {x} }" % (i, nxt))
            elif shape == 2:
                rules.append("    c%d {x} => f%d(x)" % (i, i))
                fns.append("#fn f%d(v) => asm { %s {v} }" % (i, nxt))
            else:
                rules.append("    c%d {x} => {\n        y = asm { %s {x} }\n        y\n    }" % (i, nxt))
        entry_lines = CYCLE_ENTRIES[entry]
        if shape == 4:
            entry_lines = [l.replace("c0 1", "c0").replace("c0 {v}", "c0").replace("c0 end", "c0") for l in entry_lines]
        src = "#ruledef\n{\n" + "\n".join(rules) + "\n}\n" + "\n".join(fns + entry_lines) + "\n"
        return {"main.asm": src}, ("error",)
    return fn


def fam_shl(k):
    return {"main.asm": "#d8 ((1 << %d) >> %d)[7:0]\n" % (pow2(k), pow2(k))}, ("either", "01")


def fam_shr(k):
    return {"main.asm": "#d8 (0xff >> %d)[7:0]\n" % pow2(k)}, ("either", "00" if pow2(k) >= 8 else "%02x" % (0xff >> pow2(k)))


def fam_slice_hi(k):
    n = pow2(k)
    # (closed form: never build a 2^k-bit mask here - for k in the thirties that is gigabytes of Python integer)
    return {"main.asm": "#d8 (0xab[%d:0])[7:0]\n" % n}, ("either", "%02x" % (0xab if n >= 7 else 0xab & ((1 << (n + 1)) - 1)))


def fam_slice_top(k):
    # a narrow slice whose upper index is 2^k - 1 (for k = 64 the largest machine word: hi + 1 does not fit), as an
    # unsized data element, so that the static size analysis sees it too
    n = pow2(k) - 1
    lo = max(0, n - 15)
    width = n - lo + 1
    value = (0xab >> lo) & ((1 << width) - 1) if lo < 64 else 0
    want = format((value << 8) | 0x5a, "0%db" % (width + 8))
    want = "%0*x" % ((len(want) + 3) // 4, int(want + "0" * (-len(want) % 4), 2))
    return {"main.asm": "#d (0xab)[%d:%d]\n#d8 0x5a\n" % (n, lo)}, ("either", want)


def fam_slice_both(k):
    n = pow2(k)
    return {"main.asm": "#d8 0xab[%d:%d]\n" % (n + 7, n)}, ("either", "ab" if n == 0 else "00" if n >= 8 else "%02x" % ((0xab >> n) & 0xff))


def fam_sshort(k):
    return {"main.asm": "x = 1`%d\n#d8 x[7:0]\n" % pow2(k)}, ("either", "01")


def fam_data_width(k):
    return {"main.asm": "#d%d 1\n#d8 0x77\n" % pow2(k)}, ("either", None)


def fam_type_width(k):
    return {"main.asm": "#ruledef\n{\n    t {x: u%d} => 0x66 @ x[7:0]\n}\nt 5\n" % pow2(k)}, ("either", "6605")


def fam_res(k):
    return {"main.asm": "#d8 1\n#res %d\n#d8 2\n" % pow2(k)}, ("either", None)


def fam_res_only(k):
    return {"main.asm": "#d8 1\n#res %d\n" % pow2(k)}, ("either", "01")


def fam_align(k):
    return {"main.asm": "#d8 1\n#align %d\n#d8 2\n" % pow2(k)}, ("either", None)


def fam_align_m1(k):
    return {"main.asm": "#d8 1\n#align %d\n#d8 2\n" % (pow2(k) - 1)}, ("either", None)


def fam_addr(k):
    return {"main.asm": "#d8 1\n#addr %d\n#d8 2\n" % pow2(k)}, ("either", None)


def fam_bank_addr(k):
    return {"main.asm": "#bankdef b\n{\n    #addr %d\n    #size 4\n    #outp 0\n}\nl:\n#d8 0x31\n#d8 l[7:0]\n" % pow2(k)}, ("either", "31" + "%02x" % (pow2(k) & 0xff))


def fam_bank_size(k):
    return {"main.asm": "#bankdef b\n{\n    #addr 0\n    #size %d\n    #outp 0\n}\n#d8 0x32\n" % pow2(k)}, (("error",) if k >= 64 else ("either", "32"))


def fam_bank_addr_end(k):
    # the bank's extent given as an end address: 2^k addresses; a range that does not fit the machine word must be diagnosed
    src = "#bankdef b\n{\n    #addr 0x8000\n    #addr_end 0x8000 + %d\n    #outp 0\n}\n#d8 0xaa\n" % pow2(k)
    return {"main.asm": src}, (("error",) if k >= 64 else ("either", "aa"))


def fam_bank_addr_end_fill(k):
    src = "#bankdef b\n{\n    #addr 0x8000\n    #addr_end 0x8000 + %d\n    #outp 0\n    #fill\n}\n#d8 0xaa\n" % pow2(k)
    return {"main.asm": src}, (("error",) if k >= 64 else ("either", None))


def fam_bank_addr_end_below(k):
    src = "#bankdef b\n{\n    #addr %d\n    #addr_end %d\n    #outp 0\n}\n#d8 0xaa\n" % (pow2(k), pow2(k) - 1)
    return {"main.asm": src}, ("error",)


def fam_bank_size_fill(k):
    return {"main.asm": "#bankdef b\n{\n    #addr 0\n    #size %d\n    #outp 0\n    #fill\n}\n#d8 0x32\n" % pow2(k)}, ("either", None)


def fam_bank_outp(k):
    return {"main.asm": "#bankdef b\n{\n    #addr 0\n    #size 4\n    #outp %d\n}\n#d8 0x33\n" % pow2(k)}, ("either", None)


def fam_bank_outp_m1(k):
    # a bank window that ends beyond the machine word (outp = 2^k - 1) next to an ordinary bank: the overlap test adds outp + size
    src = ("#bankdef far\n{\n    #addr 0\n    #size 0x10\n    #outp %d\n}\n#bankdef near\n{\n    #addr 0\n    #size 4\n    #outp 0\n}\n#d8 0x36\n"
           % (pow2(k) - 1))
    # k = 64: the window starts inside the machine word and only its (unused) end lies beyond it - accepted or diagnosed,
    # but never wrapped into an overlap or a panic; from k = 65 on the offset itself is unrepresentable
    return {"main.asm": src}, (("error",) if k >= 65 else ("either", "36"))


def fam_res_times_bits(k):
    # #res counts addresses: the reserved size in bits is count x address unit
    src = "#bankdef b\n{\n    #bits %d\n    #addr 0\n    #outp 0\n}\n#res 0xffffffff\n#d8 0x37\n" % pow2(k // 2 + 1)
    return {"main.asm": src}, ("either", None)


def fam_bank_bits(k):
    return {"main.asm": "#bankdef b\n{\n    #bits %d\n    #addr 0\n    #size 4\n    #outp 0\n}\nl:\n#d8 0x34\n" % pow2(k)}, ("either", "34")


def fam_bank_bits_size(k):
    # size * bits overflows the machine word
    return {"main.asm": "#bankdef b\n{\n    #bits %d\n    #addr 0\n    #size %d\n    #outp 0\n}\n#d8 0x35\n" % (pow2(k // 2 + 1), pow2(k // 2 + 1))}, ("either", "35")


def fam_bank_labelalign(k):
    return {"main.asm": "#bankdef b\n{\n    #addr 0\n    #outp 0\n    #labelalign %d\n}\n#d8 1\nl:\n#d8 2\n" % pow2(k)}, ("either", None)


def fam_labelalign_two(k):
    # every top-level label is padded up to the alignment: the second one needs a position of twice the alignment
    src = "#bankdef b\n{\n    #addr 0\n    #outp 0\n    #labelalign %d\n}\n#res 1\nfirst:\n#res 1\nsecond:\n#res 1\nthird:\n" % pow2(k)
    return {"main.asm": src}, ("either", None)


def fam_literal_digits(k):
    return {"main.asm": "x = 0x" + "0" * k + "1\n#d8 x[7:0]\n"}, ("either", "01")


def fam_decimal_digits(k):
    return {"main.asm": "x = " + "9" * max(1, k) + "\n#d8 (x %% 256)[7:0]\n" % ()}, ("either", "%02x" % (int("9" * max(1, k)) % 256))


def fam_mul_double(k):
    lines = ["x0 = 3"] + ["x%d = x%d * x%d" % (i + 1, i, i) for i in range(k)]
    return {"main.asm": "\n".join(lines) + "\n#d8 (x%d %% 251)[7:0]\n" % k}, ("either", "%02x" % (pow(3, 1 << k, 251)) if k <= 24 else None)


def fam_string_len(k):
    return {"main.asm": "#d8 strlen(\"" + "a" * k + "\")[7:0]\n"}, ("either", "%02x" % (k & 0xff))


def fam_many_items(k):
    return {"main.asm": RULES + "".join("l%d:\nld l%d\n" % (i, (i * 7 + 3) % k) for i in range(k)) + "#d8 0x48\n"}, ("either", None)


def fam_many_data(k):
    return {"main.asm": "#d8 " + ", ".join(str(i & 0xff) for i in range(k)) + "\n"}, ("either", None)


def fam_incbin_range(k):
    return {"main.asm": '#d8 incbin("p.bin", 1, %d)[7:0]\n' % pow2(k), "p.bin": b"\x01\x02\x03\x04"}, \
        ("either", "02" if pow2(k) == 1 else "03" if pow2(k) == 2 else "04" if pow2(k) == 3 else None)


# family name -> (function, magnitudes quick, magnitudes thorough, kind)
DEPTHS_Q = [1, 10, 49, 50, 51, 52, 100, 1000, 10000, 100000]
DEPTHS_T = sorted(set(DEPTHS_Q + [2, 24, 25, 26, 200, 500, 2000, 3000, 5000, 20000, 50000]))
POW_Q = [0, 1, 3, 5, 8, 16, 20, 24, 28, 30, 31, 32, 33, 40, 62, 63, 64, 65, 100]
POW_T = list(range(0, 70)) + [100, 128, 1000]

FAMILIES = {
    "paren-nesting": (fam_paren, DEPTHS_Q, DEPTHS_T),
    "block-nesting": (fam_block, DEPTHS_Q, DEPTHS_T),
    "unary-neg-chain": (fam_unary_neg, DEPTHS_Q, DEPTHS_T),
    "unary-not-chain": (fam_unary_not, DEPTHS_Q, DEPTHS_T),
    "ternary-false-chain": (fam_ternary_false, DEPTHS_Q, DEPTHS_T),
    "ternary-true-nesting": (fam_ternary_true, DEPTHS_Q, DEPTHS_T),
    "binary-operator-chain": (fam_binary_chain, DEPTHS_Q, DEPTHS_T),
    "concat-chain": (fam_concat_chain, DEPTHS_Q, DEPTHS_T),
    "call-nesting": (fam_call_nest, DEPTHS_Q, DEPTHS_T),
    "slice-nesting": (fam_slice_nest, DEPTHS_Q, DEPTHS_T),
    "if-nesting": (fam_if_nest, DEPTHS_Q, DEPTHS_T),
    "elif-chain": (fam_elif_chain, DEPTHS_Q, DEPTHS_T),
    "asm-nesting": (fam_asm_nest, [1, 5, 12, 13, 25, 30, 100, 1000], [1, 5, 10, 12, 13, 14, 25, 26, 30, 100, 1000, 5000]),
    "fn-nesting": (fam_fn_nest, [1, 5, 24, 25, 26, 30, 100, 1000], [1, 5, 24, 25, 26, 27, 30, 100, 1000, 5000]),
    "include-chain": (fam_include_chain, [1, 10, 100, 1000], [1, 10, 100, 1000, 3000]),
    "fn-cycle": (fam_cycle_fn, [1, 2, 3, 4], [1, 2, 3, 4]),
    "asm-cycle": (fam_cycle_asm, [1, 2, 3, 4], [1, 2, 3, 4]),
    "constant-cycle": (fam_cycle_rule_expr, [1, 2, 3, 4], [1, 2, 3, 4, 50]),
    **{"cycle-from-" + e: (fam_cycle_entry(e), [11, 12, 13, 14, 21, 22, 23, 31, 32, 33, 41, 42, 43, 51, 52], [s * 10 + n for s in (1, 2, 3, 4, 5) for n in (1, 2, 3, 4)])
       for e in CYCLE_ENTRIES},
    "subrule-left-recursion": (fam_cycle_subrule, [1, 2, 3, 4], [1, 2, 3, 4]),
    "include-cycle": (fam_cycle_include, [1, 2, 3, 4], [1, 2, 3, 4]),
    "shift-left": (fam_shl, POW_Q, POW_T),
    "shift-right": (fam_shr, POW_Q, POW_T),
    "slice-high-bound": (fam_slice_hi, POW_Q, POW_T),
    "slice-both-bounds": (fam_slice_both, POW_Q, POW_T),
    "slice-top-index-minus-1": (fam_slice_top, POW_Q, POW_T),
    "short-slice-size": (fam_sshort, POW_Q, POW_T),
    "data-width-suffix": (fam_data_width, POW_Q, POW_T),
    "type-width-suffix": (fam_type_width, POW_Q, POW_T),
    "res-then-data": (fam_res, POW_Q, POW_T),
    "res-only": (fam_res_only, POW_Q, POW_T),
    "align": (fam_align, POW_Q, POW_T),
    "align-minus-1": (fam_align_m1, [1, 2, 3, 8, 16, 31, 32, 33, 63, 64, 65], list(range(1, 70))),
    "addr-then-data": (fam_addr, POW_Q, POW_T),
    "bankdef-addr": (fam_bank_addr, POW_Q, POW_T),
    "bankdef-size": (fam_bank_size, POW_Q, POW_T),
    "bankdef-size-fill": (fam_bank_size_fill, POW_Q, POW_T),
    "bankdef-addr-end": (fam_bank_addr_end, POW_Q, POW_T),
    "bankdef-addr-end-fill": (fam_bank_addr_end_fill, POW_Q, POW_T),
    "bankdef-addr-end-below-addr": (fam_bank_addr_end_below, POW_Q, POW_T),
    "bankdef-outp": (fam_bank_outp, POW_Q, POW_T),
    "bankdef-outp-minus-1": (fam_bank_outp_m1, POW_Q, POW_T),
    "res-count-times-bits": (fam_res_times_bits, [2, 10, 30, 31, 32, 33, 62, 63, 64, 65, 66, 80], list(range(0, 90, 1))),
    "bankdef-bits": (fam_bank_bits, POW_Q, POW_T),
    "bankdef-bits-times-size": (fam_bank_bits_size, [2, 10, 30, 31, 32, 33, 62, 63, 64, 65, 66], list(range(0, 70, 1))),
    "bankdef-labelalign": (fam_bank_labelalign, POW_Q, POW_T),
    "labelalign-several-labels": (fam_labelalign_two, POW_Q + [61, 62], POW_T),
    "hex-literal-digits": (fam_literal_digits, [1, 100, 10000, 100000, 1000000], [1, 10, 100, 1000, 10000, 100000, 1000000, 5000000]),
    "decimal-literal-digits": (fam_decimal_digits, [1, 100, 1000, 10000, 100000], [1, 10, 100, 1000, 10000, 100000, 300000]),
    "squaring-chain": (fam_mul_double, [1, 5, 10, 20, 25, 28, 29, 30, 31, 40, 64], list(range(1, 40)) + [64, 100]),
    "string-length": (fam_string_len, [1, 1000, 100000, 1000000], [1, 10, 1000, 100000, 1000000, 10000000]),
    "many-labels-and-instructions": (fam_many_items, [10, 1000, 10000], [10, 100, 1000, 10000, 30000, 100000]),
    "many-data-elements": (fam_many_data, [10, 1000, 100000], [10, 1000, 100000, 1000000]),
    "incbin-range": (fam_incbin_range, POW_Q, POW_T),
}
