"""G_expr: typed random expression trees (see model/expr.py for the tuple format)."""
from model import expr as M

BOUNDARY_K = [1, 2, 3, 4, 7, 8, 9, 15, 16, 17, 31, 32, 33, 63, 64, 65, 127, 128, 129, 160]

ASCII_CHARS = "abcXYZ019 _-+*/!#%&()[]{}<>=?@^|~.,:;'`$"
MULTI_CHARS = ["é", "ñ", "ß", "Ω", "д", "中", "日", "€", "😀", "𝄞", "ÿ", "\u0080", "߿", "ࠀ", "￿",
               # code points whose low 16 / low 8 bits look like an ASCII or Latin-1 character, first and last of each plane
               "\U00010041", "\U00020042", "\U000e0041", "\U00100041", "\U00010000", "\U0010ffff", "\u0141", "\uff41", "\U000100e9"]


def lit_int(rng, v, force_base=None):
    """A literal node denoting non-negative v in a random spelling."""
    assert v >= 0
    base = force_base or rng.choice(["d", "d", "x", "x", "b", "o", "$", "%"])
    zeros = rng.choice([0, 0, 0, 1, 2, 5]) if base != "d" else rng.choice([0, 0, 0, 1, 3])
    if base == "d":
        digits = "0" * zeros + str(v)
        size = None
        text = digits
    elif base in ("x", "$"):
        digits = "0" * zeros + "%x" % v
        if rng.random() < 0.3:
            digits = digits.upper()
        size = 4 * len(digits)
        text = ("0x" if base == "x" else "$") + digits
    elif base in ("b", "%"):
        digits = "0" * zeros + bin(v)[2:]
        size = len(digits)
        text = ("0b" if base == "b" else "%") + digits
    else:
        digits = "0" * zeros + oct(v)[2:]
        size = 3 * len(digits)
        text = "0o" + digits
    # digit grouping with underscores (never leading for $ and %: `$_1` would be an identifier... keep after first digit)
    if len(digits) > 1 and rng.random() < 0.25:
        prefix_len = len(text) - len(digits)
        body = list(digits)
        n_us = rng.randint(1, 2)
        for _ in range(n_us):
            pos = rng.randint(1, len(body))
            body.insert(pos, "_")
        text = text[:prefix_len] + "".join(body)
    return ("int", v, size, text)


def rand_int_value(rng, big=True):
    r = rng.random()
    if r < 0.35:
        return rng.randint(0, 20)
    if r < 0.65:
        k = rng.choice(BOUNDARY_K)
        return max(0, (1 << k) + rng.choice([-2, -1, 0, 1]))
    if r < 0.85:
        return rng.getrandbits(rng.choice([8, 16, 32, 64]))
    if big:
        return rng.getrandbits(rng.choice([65, 100, 128, 129, 160]))
    return rng.getrandbits(16)


def gen_string_value(rng):
    n = rng.randint(0, 5)
    out = []
    for _ in range(n):
        if rng.random() < 0.6:
            out.append(rng.choice(ASCII_CHARS))
        else:
            out.append(rng.choice(MULTI_CHARS))
    return "".join(out)


def render_string(rng, value):
    """Source text of a string literal denoting `value`, using a random mix of escape forms."""
    parts = []
    for c in value:
        o = ord(c)
        r = rng.random()
        if c == "\\":
            parts.append("\\\\")
        elif c == '"':
            parts.append("\\x22")
        elif c == "\n":
            parts.append("\\n")
        elif c == "\t":
            parts.append("\\t")
        elif c == "\r":
            parts.append("\\r")
        elif c == "\0":
            parts.append("\\0")
        elif r < 0.12 and o < 0x80:
            parts.append("\\x%02x" % o)
        elif r < 0.30:
            parts.append("\\u{%x}" % o)
        elif c == "'" and r < 0.6:
            parts.append("\\'")
        else:
            parts.append(c)
    return '"' + "".join(parts) + '"'


def gen_str_lit(rng, ascii_first=False):
    v = gen_string_value(rng)
    if rng.random() < 0.2:
        v += rng.choice(["\n", "\t", "\r", "\0", "\\", "'"])
    if ascii_first and v and ord(v[0]) >= 0x80:
        v = "a" + v
    return ("str", v, render_string(rng, v))


class Gen:
    def __init__(self, rng, consts=None, max_depth=6, p_illtyped=0.03):
        self.rng = rng
        self.consts = consts or {}      # name -> value tuple (symbols usable as leaves)
        self.max_depth = max_depth
        self.p_ill = p_illtyped

    # -- leaves
    def int_leaf(self):
        rng = self.rng
        names = [n for n, v in self.consts.items() if v[0] == "int"]
        if names and rng.random() < 0.15:
            return ("var", 0, [rng.choice(names)])
        v = rand_int_value(rng)
        return lit_int(rng, v)

    def small(self, lo=0, hi=40):
        rng = self.rng
        v = rng.randint(lo, hi)
        return lit_int(rng, v, force_base=rng.choice(["d", "d", "x"]))

    def sized_leaf(self):
        rng = self.rng
        v = rand_int_value(rng)
        return lit_int(rng, v, force_base=rng.choice(["x", "b", "o", "$", "%"]))

    # -- typed generators
    def gen_int(self, d):
        rng = self.rng
        if d <= 0 or rng.random() < 0.18:
            return self.int_leaf()
        if rng.random() < self.p_ill:
            return self.gen_ill(d)
        r = rng.random()
        if r < 0.40:
            op = rng.choice(["+", "-", "*", "/", "%", "&", "|", "^", "+", "-", "*"])
            return ("bin", op, self.gen_intlike(d - 1), self.gen_intlike(d - 1))
        if r < 0.50:
            op = rng.choice(["<<", ">>"])
            amt = self.small(0, 70) if rng.random() < 0.93 else ("neg", self.small(1, 5))
            return ("bin", op, self.gen_int(d - 1), amt)
        if r < 0.62:
            return (rng.choice(["neg", "not"]), self.gen_int(d - 1))
        if r < 0.72:
            return ("tern", self.gen_bool(d - 1), self.gen_int(d - 1), self.gen_int(d - 1))
        if r < 0.90:
            return self.gen_sized(d)
        if r < 0.95:
            return ("call", "sizeof", [self.gen_sized(d - 1)])
        if r < 0.98:
            return ("call", "strlen", [self.gen_str(d - 1)])
        return ("par", self.gen_int(d - 1))

    def gen_intlike(self, d):
        """int, or (rarely) a string whose first encoded byte is < 0x80 (see DESIGN section 8)."""
        if self.rng.random() < 0.04:
            return self.gen_str(0, ascii_first=True)
        return self.gen_int(d)

    def gen_sized(self, d):
        rng = self.rng
        if d <= 0 or rng.random() < 0.2:
            return self.sized_leaf()
        r = rng.random()
        if r < 0.30:
            hi = rng.randint(0, 70)
            lo = rng.randint(0, hi)
            q = rng.random()
            if q < 0.03:
                lo = hi + 1          # empty slice: h = l - 1
            elif q < 0.06:
                lo = hi + rng.randint(2, 5)   # inverted
            return ("slice", self.gen_int(d - 1), self.small(hi, hi), self.small(lo, lo))
        if r < 0.50:
            n = rng.choice([0, 1, 3, 4, 7, 8, 9, 16, 24, 32, 33, 64, 65, 128, 130])
            return ("sshort", self.gen_int(d - 1), self.small(n, n))
        if r < 0.75:
            return ("bin", "@", self.gen_sized(d - 1), self.gen_sized(d - 1))
        if r < 0.88:
            # le() needs a multiple of 8: build one from a byte-multiple sshort
            n = 8 * rng.randint(0, 9)
            inner = ("sshort", self.gen_int(d - 1), self.small(n, n))
            if rng.random() < 0.1:
                inner = self.gen_sized(d - 1)     # may have a non-multiple size -> error
            return ("call", "le", [inner])
        if r < 0.94:
            return self.gen_str(d - 1)
        return ("tern", self.gen_bool(d - 1), self.gen_sized(d - 1), self.gen_sized(d - 1))

    def gen_bool(self, d):
        rng = self.rng
        if d <= 0 or rng.random() < 0.15:
            names = [n for n, v in self.consts.items() if v[0] == "bool"]
            if names and rng.random() < 0.3:
                return ("var", 0, [rng.choice(names)])
            return ("bool", rng.random() < 0.5)
        if rng.random() < self.p_ill:
            return self.gen_ill(d)
        r = rng.random()
        if r < 0.45:
            op = rng.choice(["==", "!=", "<", "<=", ">", ">="])
            a = self.gen_intlike(d - 1)
            b = self.gen_intlike(d - 1) if rng.random() < 0.8 else a
            return ("bin", op, a, b)
        if r < 0.65:
            return ("bin", rng.choice(["&&", "||"]), self.gen_bool(d - 1), self.gen_bool_or_trap(d - 1))
        if r < 0.78:
            return ("bin", rng.choice(["&", "|", "^", "==", "!="]), self.gen_bool(d - 1), self.gen_bool(d - 1))
        if r < 0.90:
            return ("not", self.gen_bool(d - 1))
        return ("tern", self.gen_bool(d - 1), self.gen_bool(d - 1), self.gen_bool(d - 1))

    def gen_bool_or_trap(self, d):
        """Right operand of a lazy operator: sometimes an expression that is an error if evaluated
        (division by zero), to observe laziness."""
        if self.rng.random() < 0.12:
            return ("bin", "==", ("bin", "/", self.int_leaf(), lit_int(self.rng, 0, "d")), self.int_leaf())
        return self.gen_bool(d)

    def gen_str(self, d, ascii_first=False):
        rng = self.rng
        s = gen_str_lit(rng, ascii_first)
        if rng.random() < 0.5:
            enc = rng.choice(M.STRING_FNS)
            if ascii_first:
                b = M.encode_string(s[1], enc)
                if b and b[0] >= 0x80:
                    return s
            return ("call", enc, [s])
        return s

    def gen_ill(self, d):
        """Deliberately ill-typed or undefined operations (the model predicts an error)."""
        rng = self.rng
        r = rng.random()
        if r < 0.2:
            return ("bin", rng.choice(["/", "%"]), self.gen_int(d - 1), lit_int(rng, 0, rng.choice(["d", "x"])))
        if r < 0.35:
            return ("bin", "@", self.gen_int(0) if rng.random() < 0.5 else ("neg", self.small()), self.gen_sized(d - 1))
        if r < 0.5:
            return ("tern", self.gen_int(d - 1), self.gen_int(d - 1), self.gen_int(d - 1))
        if r < 0.65:
            return ("bin", rng.choice(["+", "<", "&", "=="]), self.gen_bool(d - 1), self.gen_int(d - 1))
        if r < 0.75:
            return ("neg", self.gen_bool(d - 1))
        if r < 0.85:
            return ("bin", rng.choice(["&&", "||"]), self.gen_int(d - 1), self.gen_bool(d - 1))
        if r < 0.92:
            return ("call", rng.choice(["le", "sizeof", "strlen", "utf8"]), [self.gen_int(0), self.gen_int(0)])
        return ("call", "le", [("int", 5, None, "5")])

    def gen_any(self, d):
        r = self.rng.random()
        if r < 0.6:
            return self.gen_int(d)
        if r < 0.8:
            return self.gen_sized(d)
        if r < 0.93:
            return self.gen_bool(d)
        return self.gen_str(d)


def depth(e):
    if not isinstance(e, tuple):
        return 0
    k = e[0]
    if k in ("int", "bool", "str", "var", "pc"):
        return 0
    subs = []
    for x in e[1:]:
        if isinstance(x, tuple):
            subs.append(depth(x))
        elif isinstance(x, list):
            subs.extend(depth(y) for y in x if isinstance(y, tuple))
    return 1 + (max(subs) if subs else 0)


def ops_in(e, acc=None):
    """Set of operator / node kinds in e (for coverage accounting)."""
    if acc is None:
        acc = set()
    if not isinstance(e, tuple):
        return acc
    k = e[0]
    if k == "bin":
        acc.add(e[1])
    elif k == "call":
        acc.add(e[1] + "()")
    elif k == "int":
        t = e[3]
        acc.add("lit:" + ("0x" if t.startswith("0x") else "0b" if t.startswith("0b") else "0o" if t.startswith("0o")
                          else "$" if t.startswith("$") else "%" if t.startswith("%") else "dec"))
        if "_" in t:
            acc.add("lit:_")
    elif k not in ("var", "bool", "pc"):
        acc.add(k)
    for x in e[1:]:
        if isinstance(x, tuple):
            ops_in(x, acc)
        elif isinstance(x, list):
            for y in x:
                ops_in(y, acc)
    return acc
