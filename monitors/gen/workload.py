"""Mixed workload: jobs drawn from every generator, the corpus and its mutants."""
import lib
from gen import isa as G
from gen import mutate


def random_split(rng, n):
    if n <= 1 or rng.random() < 0.5:
        return None
    parts = []
    left = n
    while left > 0:
        k = rng.randint(1, left)
        parts.append(k)
        left -= k
    return parts


def gen_isa_source(rng, cascade=False, faults=True, banks=None):
    prog = G.gen_program(rng, cascade=cascade, faults=faults, banks=banks)
    n = len(prog["isa"]["rules"])
    src = G.render(prog, split=random_split(rng, n))
    return prog, src


def draw(rng, kinds=("isa", "casc", "corpus", "mut", "isamut"), weights=None):
    """Returns dict(kind, files{name: str|bytes}, roots, std, tag)."""
    kind = rng.choices(kinds, weights=weights)[0] if weights else rng.choice(kinds)
    if kind in ("isa", "casc"):
        prog, src = gen_isa_source(rng, cascade=(kind == "casc"))
        return {"kind": kind, "files": dict({"main.asm": src}, **prog.get("extra_files", {})), "roots": ["main.asm"], "std": False, "tag": kind, "prog": prog}
    if kind == "deep":
        prog = G.gen_deep_cascade(rng)
        return {"kind": kind, "files": {"main.asm": G.render(prog)}, "roots": ["main.asm"], "std": False, "tag": "deep", "prog": prog}
    if kind == "ifs":
        from gen import ifs
        g = ifs.Gen(rng)
        src = ifs.render(g.body(rng.choice([1, 2, 2, 3]), top=True)) + "\n"
        return {"kind": kind, "files": {"main.asm": src}, "roots": ["main.asm"], "std": False, "tag": "ifs"}
    if kind == "chain":
        from gen import chains
        src, want, info = chains.gen_padding_chain(rng)
        return {"kind": kind, "files": {"main.asm": src}, "roots": ["main.asm"], "std": False, "tag": "chain", "expected_hex": want}
    if kind == "macro":
        from gen import macros
        src, twin, info = macros.gen_pair(rng)
        return {"kind": kind, "files": {"main.asm": src}, "roots": ["main.asm"], "std": False, "tag": "macro"}
    corp = lib.corpus()
    if kind == "corpus":
        name, root, files = rng.choice(corp)
        return {"kind": kind, "files": dict(files), "roots": [root], "std": True, "tag": name}
    if kind == "mut":
        name, root, files = rng.choice(corp)
        files = dict(files)
        target = root
        texts = [v.decode("utf8", "replace") for k, v in files.items() if k.endswith(".asm")]
        if len(texts) > 1 and rng.random() < 0.2:
            target = rng.choice([k for k in files if k.endswith(".asm")])
        others = [rng.choice(corp)[2][rng.choice(corp)[1]] if False else None]
        other_name, other_root, other_files = rng.choice(corp)
        other_text = other_files[other_root].decode("utf8", "replace")
        text = files[target].decode("utf8", "replace")
        files[target] = mutate.mutate(rng, text, others=[other_text])
        return {"kind": kind, "files": files, "roots": [root], "std": True, "tag": "mut:" + name}
    if kind == "isamut":
        prog, src = gen_isa_source(rng, cascade=rng.random() < 0.5)
        src2 = mutate.mutate(rng, src, others=[src])
        return {"kind": kind, "files": {"main.asm": src2}, "roots": ["main.asm"], "std": False, "tag": "isamut"}
    raise ValueError(kind)


def job_of(w, want=None, opts=None, formats=None, **kw):
    return lib.asm_job(lib.files_json(w["files"]), roots=w["roots"], want=want, opts=opts, formats=formats,
                       std=w["std"], **kw)
