//! Recording / fault-injecting implementation of customasm's public `util::FileServer` trait.

use customasm::*;
use std::cell::RefCell;
use std::collections::HashMap;

pub struct ProbeFs {
    handles: HashMap<String, usize>,
    names: Vec<String>,
    files: Vec<Vec<u8>>,
    std_count: usize,

    /// file names whose `get_handle` fails (as if the file did not exist)
    pub fault_handle: Vec<String>,
    /// file names whose `get_bytes` fails (exists but unreadable)
    pub fault_read: Vec<String>,
    /// indices (0-based, in call order) of `write_bytes` calls that fail
    pub fault_write: Vec<usize>,

    pub handle_reqs: Vec<(String, bool)>,
    pub reads: RefCell<Vec<(String, bool)>>,
    pub writes: Vec<(String, Vec<u8>, bool)>,
}

impl ProbeFs {
    pub fn new() -> ProbeFs {
        ProbeFs {
            handles: HashMap::new(),
            names: Vec::new(),
            files: Vec::new(),
            std_count: 0,
            fault_handle: Vec::new(),
            fault_read: Vec::new(),
            fault_write: Vec::new(),
            handle_reqs: Vec::new(),
            reads: RefCell::new(Vec::new()),
            writes: Vec::new(),
        }
    }

    pub fn add(&mut self, name: &str, contents: Vec<u8>) {
        if let Some(&h) = self.handles.get(name) {
            self.files[h] = contents;
            return;
        }
        let h = self.names.len();
        self.handles.insert(name.to_string(), h);
        self.names.push(name.to_string());
        self.files.push(contents);
    }

    pub fn mark_std(&mut self) {
        self.std_count = self.names.len();
    }

    pub fn handle_count(&self) -> usize {
        self.names.len()
    }
}

fn report_error(report: &mut diagn::Report, span: Option<diagn::Span>, descr: String) {
    match span {
        Some(span) => report.error_span(descr, span),
        None => report.error(descr),
    }
}

impl util::FileServer for ProbeFs {
    fn get_handle(
        &mut self,
        report: &mut diagn::Report,
        span: Option<diagn::Span>,
        filename: &str,
    ) -> Result<util::FileServerHandle, ()> {
        let faulted = self.fault_handle.iter().any(|f| f == filename);
        match self.handles.get(filename) {
            Some(&h) if !faulted => {
                self.handle_reqs.push((filename.to_string(), true));
                Ok(h)
            }
            _ => {
                self.handle_reqs.push((filename.to_string(), false));
                report_error(report, span, format!("file not found: `{}`", filename));
                Err(())
            }
        }
    }

    fn get_filename(&self, file_handle: util::FileServerHandle) -> &str {
        &self.names[file_handle]
    }

    fn get_bytes(
        &self,
        report: &mut diagn::Report,
        span: Option<diagn::Span>,
        file_handle: util::FileServerHandle,
    ) -> Result<Vec<u8>, ()> {
        let name = &self.names[file_handle];
        if self.fault_read.iter().any(|f| f == name) {
            self.reads.borrow_mut().push((name.clone(), false));
            report_error(
                report,
                span,
                format!("could not open file `{}`: injected fault", name),
            );
            return Err(());
        }
        if file_handle >= self.std_count {
            self.reads.borrow_mut().push((name.clone(), true));
        }
        Ok(self.files[file_handle].clone())
    }

    fn write_bytes(
        &mut self,
        report: &mut diagn::Report,
        span: Option<diagn::Span>,
        filename: &str,
        data: &Vec<u8>,
    ) -> Result<(), ()> {
        let index = self.writes.len();
        if self.fault_write.contains(&index) {
            self.writes.push((filename.to_string(), data.clone(), false));
            report_error(
                report,
                span,
                format!("could not create file `{}`: injected fault", filename),
            );
            return Err(());
        }
        self.writes.push((filename.to_string(), data.clone(), true));
        Ok(())
    }
}
