//! casm-probe: recorder for the customasm runtime monitors.
//!
//! Reads one JSON job per line on stdin, executes it against the real customasm
//! library (built from /repo with --cfg hlorenzi_customasm_verif) and writes one JSON
//! observation record per job to the fd given by `--out-fd N` (default: stdout).
//!
//! The probe does no judging: every verdict is made by the Python monitors over the records.

use customasm::*;
use serde_json::{json, Map, Value as J};
use std::cell::RefCell;
use std::collections::HashMap;
use std::io::{BufRead, Read, Seek, Write};

mod fs;
use fs::ProbeFs;
use customasm::util::FileServer;

thread_local! {
    static LAST_PANIC: RefCell<Option<(String, String)>> = RefCell::new(None);
}

fn hex(bytes: &[u8]) -> String {
    let mut s = String::with_capacity(bytes.len() * 2);
    for b in bytes {
        s.push_str(&format!("{:02x}", b));
    }
    s
}

fn unhex(s: &str) -> Vec<u8> {
    let b = s.as_bytes();
    let mut out = Vec::with_capacity(b.len() / 2);
    let mut i = 0;
    while i + 1 < b.len() {
        let h = (b[i] as char).to_digit(16).unwrap_or(0) as u8;
        let l = (b[i + 1] as char).to_digit(16).unwrap_or(0) as u8;
        out.push(h << 4 | l);
        i += 2;
    }
    out
}

fn bytes_to_json(bytes: &[u8], force_hex: bool) -> J {
    if !force_hex {
        if let Ok(s) = std::str::from_utf8(bytes) {
            return json!({ "t": s });
        }
    }
    json!({ "h": hex(bytes) })
}

fn bigint_to_json(b: &util::BigInt) -> J {
    // value as signed hex string ("-0x1f" style handled by LowerHex of num_bigint: "-1f")
    json!({ "v": format!("{:x}", b), "s": b.size })
}

fn value_to_json(v: &expr::Value) -> J {
    match v {
        expr::Value::Unknown => json!({"k": "unknown"}),
        expr::Value::FailedConstraint(m) => json!({"k": "failed", "descr": m.descr}),
        expr::Value::Void => json!({"k": "void"}),
        expr::Value::Integer(b) => json!({"k": "int", "v": format!("{:x}", b), "s": b.size}),
        expr::Value::String(s) => json!({"k": "str", "v": s.utf8_contents, "enc": s.encoding}),
        expr::Value::Bool(b) => json!({"k": "bool", "v": b}),
        expr::Value::ExprBuiltInFunction(n) => json!({"k": "builtin", "v": n}),
        expr::Value::AsmBuiltInFunction(n) => json!({"k": "asmbuiltin", "v": n}),
        expr::Value::Function(i) => json!({"k": "fn", "v": i}),
    }
}

fn span_to_json(span: &diagn::Span, fs: &dyn util::FileServer) -> J {
    let fname = fs.get_filename(span.file_handle).to_string();
    match span.location() {
        Some((a, b)) => json!({"f": fname, "a": a, "b": b}),
        None => json!({"f": fname}),
    }
}

fn msg_to_json(m: &diagn::Message, fs: &ProbeFs) -> J {
    let kind = match m.kind {
        diagn::MessageKind::Error => "error",
        diagn::MessageKind::Warning => "warning",
        diagn::MessageKind::Note => "note",
    };
    let span = match &m.span {
        Some(s) => {
            if s.file_handle < fs.handle_count() {
                span_to_json(s, fs)
            } else {
                json!({"bad_handle": s.file_handle})
            }
        }
        None => J::Null,
    };
    json!({
        "kind": kind,
        "descr": m.descr,
        "span": span,
        "short": m.short_excerpt,
        "inner": m.inner.iter().map(|i| msg_to_json(i, fs)).collect::<Vec<_>>(),
    })
}

fn report_to_json(report: &diagn::Report, fs: &ProbeFs) -> J {
    J::Array(
        report
            .verif_messages()
            .iter()
            .map(|m| msg_to_json(m, fs))
            .collect(),
    )
}

fn printed(report: &diagn::Report, fs: &ProbeFs) -> J {
    // Printing can itself panic (char_counter); observe that separately.
    let r = std::panic::catch_unwind(std::panic::AssertUnwindSafe(|| {
        let mut buf: Vec<u8> = Vec::new();
        report.print_all(&mut buf, fs, false);
        buf
    }));
    match r {
        Ok(buf) => json!({"text": String::from_utf8_lossy(&buf)}),
        Err(_) => json!({"panic": take_panic()}),
    }
}

fn take_panic() -> J {
    let p = LAST_PANIC.with(|p| p.borrow_mut().take());
    match p {
        Some((msg, loc)) => json!({"msg": msg, "loc": loc}),
        None => json!({"msg": "?", "loc": "?"}),
    }
}

fn bits_hex(bv: &util::BitVec) -> String {
    format!("{:x}", bv)
}

fn output_to_json(bv: &util::BitVec, fs: &ProbeFs, want_spans: bool) -> J {
    let mut o = Map::new();
    o.insert("len".into(), json!(bv.len()));
    if bv.len() <= (16 << 20) {
        o.insert("hex".into(), json!(bits_hex(bv)));
    } else {
        // huge outputs (far #addr) are never compared bit by bit: C19 owns them
        o.insert("hex".into(), json!(""));
        o.insert("hex_omitted".into(), json!(true));
    }
    if want_spans {
        let spans: Vec<J> = bv
            .spans
            .iter()
            .map(|s| {
                let fname = fs.get_filename(s.span.file_handle).to_string();
                let (a, b) = match s.span.location() {
                    Some((a, b)) => (json!(a), json!(b)),
                    None => (J::Null, J::Null),
                };
                json!([s.offset, s.size, format!("{:x}", s.addr), fname, a, b])
            })
            .collect();
        o.insert("spans".into(), J::Array(spans));
    }
    J::Object(o)
}

fn symbols_to_json(decls: &asm::ItemDecls, defs: &asm::ItemDefs, fs: &ProbeFs) -> J {
    let mut out = Vec::new();
    for i in 0..defs.symbols.defs.len() {
        let Some(sym) = defs.symbols.defs[i].as_ref() else {
            out.push(J::Null);
            continue;
        };
        let decl = decls.symbols.get(util::ItemRef::new(i));
        let kind = match decl.kind {
            util::SymbolKind::Constant => "const",
            util::SymbolKind::Label => "label",
            util::SymbolKind::Function => "fn",
            util::SymbolKind::Other => "other",
        };
        out.push(json!({
            "name": decl.name,
            "kind": kind,
            "depth": decl.depth,
            "value": value_to_json(&sym.value),
            "noemit": sym.no_emit,
            "static": sym.value_statically_known,
            "resolved": sym.resolved,
            "bank": sym.bankdef_ref.map(|b| b.0),
            "span": span_to_json(&decl.span, fs),
        }));
    }
    J::Array(out)
}

fn banks_to_json(decls: &asm::ItemDecls, defs: &asm::ItemDefs) -> J {
    let mut out = Vec::new();
    for i in 0..defs.bankdefs.defs.len() {
        let Some(b) = defs.bankdefs.defs[i].as_ref() else {
            out.push(J::Null);
            continue;
        };
        let decl = decls.bankdefs.get(util::ItemRef::new(i));
        out.push(json!({
            "name": decl.name,
            "unit": b.addr_unit,
            "labelalign": b.label_align,
            "addr": format!("{:x}", b.addr_start),
            "size": b.size,
            "outp": b.output_offset,
            "fill": b.fill,
        }));
    }
    J::Array(out)
}

fn instrs_to_json(ast: &asm::AstTopLevel, defs: &asm::ItemDefs, fs: &ProbeFs) -> J {
    let mut out = Vec::new();
    for node in &ast.nodes {
        if let asm::AstAny::Instruction(ai) = node {
            let Some(r) = ai.item_ref else { continue };
            if r.0 >= defs.instructions.defs.len() {
                continue;
            }
            let Some(ins) = defs.instructions.defs[r.0].as_ref() else { continue };
            let matches: Vec<J> = ins
                .matches
                .iter()
                .map(|m| {
                    let enc = match &m.encoding {
                        asm::InstructionMatchResolution::Unresolved => json!("unresolved"),
                        asm::InstructionMatchResolution::FailedConstraint(msg) => {
                            json!({"failed": msg.descr})
                        }
                        asm::InstructionMatchResolution::Resolved(b) => bigint_to_json(b),
                    };
                    json!({
                        "ruledef": m.ruledef_ref.0,
                        "rule": m.rule_ref.0,
                        "exact": m.exact_part_count,
                        "static": m.encoding_statically_known,
                        "size_guess": m.encoding_size,
                        "enc": enc,
                        "args": m.args.iter().map(|a| a.excerpt.clone()).collect::<Vec<_>>(),
                    })
                })
                .collect();
            out.push(json!({
                "src": ai.src,
                "span": span_to_json(&ai.span, fs),
                "matches": matches,
                "enc": bigint_to_json(&ins.encoding),
                "resolved": ins.resolved,
                "static": ins.encoding_statically_known,
            }));
        }
    }
    J::Array(out)
}

fn trace_to_json() -> J {
    let (events, total) = asm::resolver::verif_trace::take();
    let ev: Vec<J> = events
        .iter()
        .map(|e| json!([e.0, e.1, e.2, e.3, e.4]))
        .collect();
    json!({"events": ev, "total": total})
}

fn parse_define(d: &J) -> Option<asm::DriverSymbolDef> {
    let name = d.get("name")?.as_str()?.to_string();
    if let Some(b) = d.get("bool").and_then(|b| b.as_bool()) {
        return Some(asm::DriverSymbolDef { name, value: expr::Value::make_bool(b) });
    }
    if let Some(s) = d.get("int").and_then(|s| s.as_str()) {
        let (neg, body) = match s.strip_prefix('-') {
            Some(rest) => (true, rest),
            None => (false, s),
        };
        let v = syntax::excerpt_as_bigint(None, diagn::Span::new_dummy(), body).ok()?;
        let v = if neg { -&v } else { v };
        return Some(asm::DriverSymbolDef { name, value: expr::Value::make_integer(v) });
    }
    None
}

fn make_opts(job: &J) -> asm::AssemblyOptions {
    let mut opts = asm::AssemblyOptions::new();
    if let Some(o) = job.get("opts") {
        if let Some(n) = o.get("iters").and_then(|n| n.as_u64()) {
            opts.max_iterations = n as usize;
        }
        if let Some(b) = o.get("opt_static").and_then(|b| b.as_bool()) {
            opts.optimize_statically_known = b;
        }
        if let Some(b) = o.get("opt_matcher").and_then(|b| b.as_bool()) {
            opts.optimize_instruction_matching = b;
        }
        if let Some(b) = o.get("debug_iters").and_then(|b| b.as_bool()) {
            opts.debug_iterations = b;
        }
        if let Some(ds) = o.get("defines").and_then(|d| d.as_array()) {
            for d in ds {
                if let Some(def) = parse_define(d) {
                    opts.driver_symbol_defs.push(def);
                }
            }
        }
    }
    opts
}

fn make_fs(job: &J, std_files: &[(String, Vec<u8>)]) -> ProbeFs {
    let mut fs = ProbeFs::new();
    if job.get("std").and_then(|b| b.as_bool()).unwrap_or(false) {
        for (n, c) in std_files {
            fs.add(n, c.clone());
        }
        fs.mark_std();
    }
    if let Some(files) = job.get("files").and_then(|f| f.as_array()) {
        for f in files {
            let Some(arr) = f.as_array() else { continue };
            if arr.len() < 2 {
                continue;
            }
            let name = arr[0].as_str().unwrap_or("");
            let content: Vec<u8> = match &arr[1] {
                J::String(s) => s.as_bytes().to_vec(),
                J::Object(o) => match o.get("h").and_then(|h| h.as_str()) {
                    Some(h) => unhex(h),
                    None => Vec::new(),
                },
                _ => Vec::new(),
            };
            fs.add(name, content);
        }
    }
    if let Some(fault) = job.get("fault") {
        if let Some(a) = fault.get("handle_fail").and_then(|a| a.as_array()) {
            fs.fault_handle = a.iter().filter_map(|x| x.as_str().map(|s| s.to_string())).collect();
        }
        if let Some(a) = fault.get("read_fail").and_then(|a| a.as_array()) {
            fs.fault_read = a.iter().filter_map(|x| x.as_str().map(|s| s.to_string())).collect();
        }
        if let Some(a) = fault.get("write_fail").and_then(|a| a.as_array()) {
            fs.fault_write = a.iter().filter_map(|x| x.as_u64().map(|n| n as usize)).collect();
        }
    }
    fs
}

fn want(job: &J, key: &str) -> bool {
    job.get("want")
        .and_then(|w| w.as_array())
        .map(|a| a.iter().any(|x| x.as_str() == Some(key)))
        .unwrap_or(false)
}

/// Fills `rec` with everything observable about a finished assembly.
fn describe_assembly(
    rec: &mut Map<String, J>,
    job: &J,
    report: &diagn::Report,
    assembly: &mut asm::AssemblyResult,
    opts: &asm::AssemblyOptions,
    fs: &mut ProbeFs,
) {
    rec.insert("error".into(), json!(assembly.error));
    rec.insert("iters".into(), json!(assembly.iterations_taken));
    rec.insert("has_output".into(), json!(assembly.output.is_some()));
    rec.insert("nmsgs".into(), json!(report.verif_messages().len()));
    let nerr = report
        .verif_messages()
        .iter()
        .filter(|m| m.kind == diagn::MessageKind::Error)
        .count();
    rec.insert("nerrors".into(), json!(nerr));

    if want(job, "trace") {
        rec.insert("trace".into(), trace_to_json());
    } else {
        let _ = asm::resolver::verif_trace::take();
    }
    if want(job, "msgs") {
        rec.insert("msgs".into(), report_to_json(report, fs));
    }
    if want(job, "printed") {
        rec.insert("printed".into(), printed(report, fs));
    }
    if let Some(out) = assembly.output.as_ref() {
        rec.insert("out".into(), output_to_json(out, fs, want(job, "spans")));
    }
    if let (Some(decls), Some(defs)) = (assembly.decls.as_ref(), assembly.defs.as_ref()) {
        if want(job, "symbols") {
            rec.insert("syms".into(), symbols_to_json(decls, defs, fs));
        }
        if want(job, "banks") {
            rec.insert("banks".into(), banks_to_json(decls, defs));
        }
        if want(job, "instrs") {
            if let Some(ast) = assembly.ast.as_ref() {
                rec.insert("instrs".into(), instrs_to_json(ast, defs, fs));
            }
        }
    }

    // Output formats
    if let Some(fmts) = job.get("formats").and_then(|f| f.as_array()) {
        let mut fm = Map::new();
        if let (Some(out), Some(decls), Some(defs)) =
            (assembly.output.as_ref(), assembly.decls.as_ref(), assembly.defs.as_ref())
        {
            for f in fmts {
                let Some(fstr) = f.as_str() else { continue };
                let mut tmp = diagn::Report::new();
                let parsed = std::panic::catch_unwind(std::panic::AssertUnwindSafe(|| {
                    driver::parse_output_format(&mut tmp, fstr)
                }));
                let v = match parsed {
                    Err(_) => json!({"parse_panic": take_panic()}),
                    Ok(Err(())) => json!({
                        "parse_err": tmp.verif_messages().iter().map(|m| m.descr.clone()).collect::<Vec<_>>()
                    }),
                    Ok(Ok(format)) => {
                        let r = std::panic::catch_unwind(std::panic::AssertUnwindSafe(|| {
                            driver::format_output(&*fs, decls, defs, out, format)
                        }));
                        match r {
                            Ok(bytes) => bytes_to_json(&bytes, fstr == "binary"),
                            Err(_) => json!({"panic": take_panic()}),
                        }
                    }
                };
                fm.insert(fstr.to_string(), v);
            }
        }
        rec.insert("formats".into(), J::Object(fm));
    }

    // U4: fixed-point re-evaluation with the implementation's own step function.
    if want(job, "recheck") && assembly.output.is_some() && !assembly.error {
        let r = std::panic::catch_unwind(std::panic::AssertUnwindSafe(|| {
            recheck(assembly, opts, fs)
        }));
        match r {
            Ok(v) => {
                rec.insert("recheck".into(), v);
            }
            Err(_) => {
                rec.insert("recheck".into(), json!({"panic": take_panic()}));
            }
        }
        let _ = asm::resolver::verif_trace::take();
    }
}

fn symbol_values(defs: &asm::ItemDefs) -> Vec<String> {
    defs.symbols
        .defs
        .iter()
        .map(|s| match s {
            Some(s) => format!("{:?}", s.value),
            None => "-".to_string(),
        })
        .collect()
}

fn recheck(assembly: &mut asm::AssemblyResult, opts: &asm::AssemblyOptions, fs: &mut ProbeFs) -> J {
    let ast = assembly.ast.as_ref().unwrap();
    let decls = assembly.decls.as_ref().unwrap();
    let defs = assembly.defs.as_mut().unwrap();
    let before_syms = symbol_values(defs);
    let before_bits = assembly.output.as_ref().map(|o| (o.len(), bits_hex(o)));

    // Clear every short-circuit flag except those of command-line defines.
    for i in 0..defs.symbols.defs.len() {
        let name = decls.symbols.get(util::ItemRef::new(i)).name.clone();
        if opts.driver_symbol_defs.iter().any(|d| d.name == name) {
            continue;
        }
        if let Some(s) = defs.symbols.defs[i].as_mut() {
            s.resolved = false;
        }
    }
    for ins in defs.instructions.defs.iter_mut().flatten() {
        ins.resolved = false;
    }
    for d in defs.data_elems.defs.iter_mut().flatten() {
        d.resolved = false;
    }

    let mut opts2 = asm::AssemblyOptions::new();
    opts2.max_iterations = opts.max_iterations;
    opts2.optimize_statically_known = false;
    opts2.optimize_instruction_matching = opts.optimize_instruction_matching;
    for d in &opts.driver_symbol_defs {
        opts2.driver_symbol_defs.push(asm::DriverSymbolDef {
            name: d.name.clone(),
            value: d.value.clone(),
        });
    }

    let mut report2 = diagn::Report::new();
    let state = asm::resolver::resolve_once(
        &mut report2, &opts2, fs, ast, decls, defs, 1000, false, true,
    );
    let state_s = match state {
        Ok(asm::ResolutionState::Resolved) => "resolved",
        Ok(asm::ResolutionState::Unresolved) => "unresolved",
        Err(()) => "err",
    };
    let after_syms = symbol_values(defs);
    let mut sym_diff = Vec::new();
    for i in 0..before_syms.len() {
        if before_syms[i] != after_syms[i] {
            sym_diff.push(json!({
                "name": decls.symbols.get(util::ItemRef::new(i)).name,
                "before": before_syms[i],
                "after": after_syms[i],
            }));
        }
    }
    let mut report3 = diagn::Report::new();
    let out2 = asm::output::build_output(&mut report3, ast, decls, defs);
    let bits_same = match (&out2, &before_bits) {
        (Ok(o2), Some((l, h))) => o2.len() == *l && bits_hex(o2) == *h,
        _ => false,
    };
    json!({
        "state": state_s,
        "msgs": report2.verif_messages().iter().map(|m| m.descr.clone()).collect::<Vec<_>>(),
        "sym_diff": sym_diff,
        "rebuild_ok": out2.is_ok(),
        "rebuild_msgs": report3.verif_messages().iter().map(|m| m.descr.clone()).collect::<Vec<_>>(),
        "bits_same": bits_same,
    })
}

fn fs_events(rec: &mut Map<String, J>, fs: &ProbeFs) {
    rec.insert(
        "writes".into(),
        J::Array(
            fs.writes
                .iter()
                .map(|(n, d, ok)| json!({"name": n, "data": bytes_to_json(d, false), "ok": ok}))
                .collect(),
        ),
    );
    rec.insert(
        "reads".into(),
        J::Array(fs.reads.borrow().iter().map(|(n, ok)| json!([n, ok])).collect()),
    );
    rec.insert(
        "handles".into(),
        J::Array(fs.handle_reqs.iter().map(|(n, ok)| json!([n, ok])).collect()),
    );
}

fn run_asm(job: &J, std_files: &[(String, Vec<u8>)]) -> Map<String, J> {
    let mut rec = Map::new();
    let mut fs = make_fs(job, std_files);
    let opts = make_opts(job);
    let roots: Vec<String> = job
        .get("roots")
        .and_then(|r| r.as_array())
        .map(|a| a.iter().filter_map(|x| x.as_str().map(|s| s.to_string())).collect())
        .unwrap_or_else(|| vec!["main.asm".to_string()]);
    let mut report = diagn::Report::new();
    let _ = asm::resolver::verif_trace::take();
    let mut assembly = asm::assemble(&mut report, &opts, &mut fs, &roots);
    describe_assembly(&mut rec, job, &report, &mut assembly, &opts, &mut fs);
    if want(job, "fsevents") {
        fs_events(&mut rec, &fs);
    }
    rec
}

fn run_drive(job: &J, std_files: &[(String, Vec<u8>)]) -> Map<String, J> {
    let mut rec = Map::new();
    let mut fs = make_fs(job, std_files);
    let argv: Vec<String> = job
        .get("argv")
        .and_then(|r| r.as_array())
        .map(|a| a.iter().filter_map(|x| x.as_str().map(|s| s.to_string())).collect())
        .unwrap_or_default();
    let mut report = diagn::Report::new();
    let _ = asm::resolver::verif_trace::take();
    let result = driver::drive(&mut report, &argv, &mut fs);
    rec.insert("drive_ok".into(), json!(result.is_ok()));
    let opts = asm::AssemblyOptions::new();
    match result {
        Ok(mut assembly) => {
            describe_assembly(&mut rec, job, &report, &mut assembly, &opts, &mut fs);
        }
        Err(()) => {
            rec.insert("nmsgs".into(), json!(report.verif_messages().len()));
            let nerr = report
                .verif_messages()
                .iter()
                .filter(|m| m.kind == diagn::MessageKind::Error)
                .count();
            rec.insert("nerrors".into(), json!(nerr));
            if want(job, "msgs") {
                rec.insert("msgs".into(), report_to_json(&report, &fs));
            }
            if want(job, "printed") {
                rec.insert("printed".into(), printed(&report, &fs));
            }
            let _ = asm::resolver::verif_trace::take();
        }
    }
    fs_events(&mut rec, &fs);
    rec
}

/// Pure helpers exposed for model cross-checks (C14 path model).
fn run_navigate(job: &J) -> Map<String, J> {
    let mut rec = Map::new();
    let cur = job.get("current").and_then(|s| s.as_str()).unwrap_or("");
    let new = job.get("new").and_then(|s| s.as_str()).unwrap_or("");
    let mut report = diagn::Report::new();
    let r = util::filename_navigate(&mut report, diagn::Span::new_dummy(), cur, new);
    match r {
        Ok(s) => {
            rec.insert("path".into(), json!(s));
        }
        Err(()) => {
            rec.insert(
                "err".into(),
                json!(report.verif_messages().iter().map(|m| m.descr.clone()).collect::<Vec<_>>()),
            );
        }
    }
    rec
}

fn execute(job: &J, std_files: &[(String, Vec<u8>)]) -> J {
    let mode = job.get("mode").and_then(|m| m.as_str()).unwrap_or("asm").to_string();
    let r = std::panic::catch_unwind(std::panic::AssertUnwindSafe(|| match mode.as_str() {
        "asm" => run_asm(job, std_files),
        "drive" => run_drive(job, std_files),
        "navigate" => run_navigate(job),
        _ => {
            let mut m = Map::new();
            m.insert("harness_error".into(), json!(format!("unknown mode {}", mode)));
            m
        }
    }));
    let mut rec = match r {
        Ok(mut m) => {
            m.insert("outcome".into(), json!("done"));
            m
        }
        Err(_) => {
            let mut m = Map::new();
            m.insert("outcome".into(), json!("panic"));
            m.insert("panic".into(), take_panic());
            let _ = asm::resolver::verif_trace::take();
            m
        }
    };
    if let Some(id) = job.get("id") {
        rec.insert("id".into(), id.clone());
    }
    J::Object(rec)
}

/// Runs `job` on a fresh thread with the given stack size (the real binary's main thread has 8 MiB).
fn execute_on_thread(job: J, std_files: std::sync::Arc<Vec<(String, Vec<u8>)>>, stack: usize) -> J {
    let id = job.get("id").cloned();
    let h = std::thread::Builder::new()
        .stack_size(stack)
        .spawn(move || execute(&job, &std_files))
        .unwrap();
    match h.join() {
        Ok(v) => v,
        Err(_) => json!({"id": id, "outcome": "panic", "panic": {"msg": "thread join failed", "loc": "?"}}),
    }
}

struct StdoutCapture {
    file: std::fs::File,
    saved_fd: i32,
}

impl StdoutCapture {
    fn begin(file: &std::fs::File) -> StdoutCapture {
        use std::os::unix::io::AsRawFd;
        let mut f = file.try_clone().unwrap();
        f.set_len(0).unwrap();
        f.seek(std::io::SeekFrom::Start(0)).unwrap();
        std::io::stdout().flush().ok();
        let saved = unsafe { libc::dup(1) };
        unsafe { libc::dup2(f.as_raw_fd(), 1) };
        StdoutCapture { file: f, saved_fd: saved }
    }

    fn end(mut self) -> String {
        std::io::stdout().flush().ok();
        unsafe {
            libc::dup2(self.saved_fd, 1);
            libc::close(self.saved_fd);
        }
        let mut s = Vec::new();
        self.file.seek(std::io::SeekFrom::Start(0)).unwrap();
        self.file.read_to_end(&mut s).ok();
        String::from_utf8_lossy(&s).to_string()
    }
}

fn load_std() -> Vec<(String, Vec<u8>)> {
    fn walk(dir: &std::path::Path, rel: &str, out: &mut Vec<(String, Vec<u8>)>) {
        let Ok(rd) = std::fs::read_dir(dir) else { return };
        let mut entries: Vec<_> = rd.flatten().collect();
        entries.sort_by_key(|e| e.file_name());
        for e in entries {
            let p = e.path();
            let name = format!("{}{}", rel, e.file_name().to_string_lossy());
            if p.is_file() {
                if let Ok(c) = std::fs::read(&p) {
                    out.push((name, c));
                }
            } else {
                walk(&p, &format!("{}/", name), out);
            }
        }
    }
    let mut out = Vec::new();
    let root = std::env::var("CASM_STD_DIR").unwrap_or_else(|_| "/repo/std".to_string());
    walk(std::path::Path::new(&root), "<std>/", &mut out);
    out
}

fn main() {
    let args: Vec<String> = std::env::args().collect();
    let mut out_fd: i32 = 1;
    let mut i = 1;
    while i < args.len() {
        if args[i] == "--out-fd" && i + 1 < args.len() {
            out_fd = args[i + 1].parse().unwrap_or(1);
            i += 1;
        }
        i += 1;
    }

    std::panic::set_hook(Box::new(|info| {
        let msg = if let Some(s) = info.payload().downcast_ref::<&str>() {
            s.to_string()
        } else if let Some(s) = info.payload().downcast_ref::<String>() {
            s.clone()
        } else {
            "<non-string panic>".to_string()
        };
        let loc = info
            .location()
            .map(|l| format!("{}:{}", l.file(), l.line()))
            .unwrap_or_else(|| "?".to_string());
        LAST_PANIC.with(|p| *p.borrow_mut() = Some((msg, loc)));
    }));

    let std_files = std::sync::Arc::new(load_std());

    use std::os::unix::io::FromRawFd;
    let mut out: Box<dyn Write> = if out_fd == 1 {
        Box::new(std::io::stdout())
    } else {
        Box::new(unsafe { std::fs::File::from_raw_fd(out_fd) })
    };

    let capture_file = {
        let path = std::env::temp_dir().join(format!("casm-probe-stdout-{}", std::process::id()));
        let f = std::fs::OpenOptions::new()
            .read(true)
            .write(true)
            .create(true)
            .truncate(true)
            .open(&path)
            .unwrap();
        let _ = std::fs::remove_file(&path);
        f
    };

    let stdin = std::io::stdin();
    for line in stdin.lock().lines() {
        let Ok(line) = line else { break };
        if line.trim().is_empty() {
            continue;
        }
        let job: J = match serde_json::from_str(&line) {
            Ok(j) => j,
            Err(e) => {
                let rec = json!({"outcome": "harness_error", "harness_error": format!("bad job json: {}", e)});
                writeln!(out, "{}", rec).unwrap();
                out.flush().unwrap();
                continue;
            }
        };
        let stack = job
            .get("stack_mb")
            .and_then(|s| s.as_u64())
            .unwrap_or(8) as usize
            * 1024
            * 1024;
        let capture = job.get("capture_stdout").and_then(|b| b.as_bool()).unwrap_or(false)
            || job.get("mode").and_then(|m| m.as_str()) == Some("drive");
        let threads = job.get("threads").and_then(|t| t.as_u64()).unwrap_or(0) as usize;

        let cap = if capture && out_fd != 1 { Some(StdoutCapture::begin(&capture_file)) } else { None };

        let mut rec = if threads > 1 {
            // Same job on several threads at once (C10), optionally mixed with other jobs.
            let mut jobs: Vec<J> = vec![job.clone(); threads];
            if let Some(others) = job.get("with").and_then(|w| w.as_array()) {
                jobs.extend(others.iter().cloned());
            }
            let handles: Vec<_> = jobs
                .into_iter()
                .map(|j| {
                    let sf = std_files.clone();
                    std::thread::Builder::new()
                        .stack_size(stack)
                        .spawn(move || execute(&j, &sf))
                        .unwrap()
                })
                .collect();
            let recs: Vec<J> = handles
                .into_iter()
                .map(|h| h.join().unwrap_or_else(|_| json!({"outcome": "panic"})))
                .collect();
            json!({"id": job.get("id"), "outcome": "multi", "records": recs})
        } else {
            execute_on_thread(job, std_files.clone(), stack)
        };

        if let Some(cap) = cap {
            let s = cap.end();
            if let J::Object(ref mut m) = rec {
                m.insert("stdout".into(), json!(s));
            }
        }

        writeln!(out, "{}", rec).unwrap();
        out.flush().unwrap();
    }
}

#[allow(dead_code)]
fn _unused(_: HashMap<String, String>) {}
