//! Tiny two-thread workload for Miri (C10, thorough tier): the same five programs are assembled
//! concurrently on two threads; results must be equal and Miri must report no data race / UB.
use customasm::*;

const PROGRAMS: [&str; 5] = [
    "#ruledef\n{\n    ld {x: u8} => 0x10 @ x\n    jmp {a} => 0x20 @ a`16\n}\nstart:\n ld 5\n jmp end\n#d8 1, 2\nend:\n",
    "#ruledef\n{\n    b {a: u8} => 0x01 @ a\n    b {a: u16} => 0x02 @ a\n}\nb far\n#res 300\nfar:\n",
    "a = 1\n.b = a + 1\n.c = .b * 2\nx:\n.y:\n#d8 a.b, a.c, x.y\n",
    "#d16 0x1234, le(0x5678)\n#d8 \"hi\"\n#d8 undefined_symbol\n",
    "#bankdef a\n{\n #addr 0x100\n #size 0x10\n #outp 0\n #fill\n}\nl: #d8 $`8, l`8\n",
];

fn run_all() -> Vec<(Option<String>, usize)> {
    let mut out = Vec::new();
    for src in PROGRAMS {
        let mut report = diagn::Report::new();
        let mut fs = util::FileServerMock::new();
        fs.add("main.asm", src);
        let opts = asm::AssemblyOptions::new();
        let result = asm::assemble(&mut report, &opts, &mut fs, &["main.asm"]);
        let bits = result.output.as_ref().map(|o| format!("{:x}", o));
        let mut printed = Vec::new();
        report.print_all(&mut printed, &fs, false);
        let syms = match (result.decls.as_ref(), result.defs.as_ref(), result.output.as_ref()) {
            (Some(decls), Some(defs), Some(_)) => decls.symbols.format_default(decls, defs).len(),
            _ => 0,
        };
        out.push((bits, printed.len() + syms));
    }
    out
}

fn main() {
    let t1 = std::thread::spawn(run_all);
    let t2 = std::thread::spawn(run_all);
    let a = t1.join().unwrap();
    let b = t2.join().unwrap();
    assert_eq!(a, b, "threads disagree");
    println!("miri-threads: {} programs x 2 threads agree", a.len());
}
