//! libFuzzer target for C03 (thorough tier): coverage-guided workload generation with the U1 oracle
//! (exactly one of clean success / loud failure, never a crash) evaluated in-process.
#![no_main]
use customasm::*;
use libfuzzer_sys::fuzz_target;

/// Inputs that belong to C19 (resource limits) or reproduce a listed known finding are skipped, so that
/// a listed crash does not mask new ones.
fn out_of_scope(text: &str) -> bool {
    // numeric literals above 2^20 (magnitude families are C19's)
    let mut run = 0usize;
    for c in text.chars() {
        if c.is_ascii_hexdigit() || c == '_' {
            run += 1;
            if run > 6 {
                return true;
            }
        } else {
            run = 0;
        }
    }
    // KF-C19-subrule-left-recursion: an alternative of a #subruledef that starts with a parameter
    if text.contains("subruledef") {
        for line in text.lines() {
            let t = line.trim_start();
            if t.starts_with('{') && t.contains(':') && t.contains("=>") {
                return true;
            }
        }
    }
    false
}

fuzz_target!(|data: &[u8]| {
    if data.len() > 4096 {
        return;
    }
    let text = String::from_utf8_lossy(data).to_string();
    if out_of_scope(&text) {
        return;
    }
    let mut report = diagn::Report::new();
    let mut fileserver = util::FileServerMock::new();
    fileserver.add("main.asm", text.clone());
    fileserver.add("inc.asm", "#d8 0x11\n");
    fileserver.add("data.bin", vec![1u8, 2, 3, 4]);
    let mut opts = asm::AssemblyOptions::new();
    if data.len() % 3 == 0 {
        opts.max_iterations = 1 + data.len() % 4;
    }
    if data.len() % 5 == 0 {
        opts.optimize_instruction_matching = false;
    }
    if data.len() % 7 == 0 {
        opts.optimize_statically_known = false;
    }
    let result = asm::assemble(&mut report, &opts, &mut fileserver, &["main.asm"]);
    let nerrors = report
        .verif_messages()
        .iter()
        .filter(|m| m.kind == diagn::MessageKind::Error)
        .count();
    let success = !result.error && result.output.is_some() && nerrors == 0;
    let failure = result.error && result.output.is_none() && nerrors >= 1;
    assert!(
        success != failure,
        "U1 violated: error={} output={} nerrors={}",
        result.error,
        result.output.is_some(),
        nerrors
    );
    // diagnostics must be printable and every format must be producible
    let mut sink = Vec::new();
    report.print_all(&mut sink, &fileserver, false);
    if let (Some(out), Some(decls), Some(defs)) = (result.output.as_ref(), result.decls.as_ref(), result.defs.as_ref()) {
        if out.len() < 1 << 16 {
            let _ = out.format_annotated(&fileserver, 16, 2);
            let _ = out.format_intelhex(8);
            let _ = out.format_hexdump();
            let _ = decls.symbols.format_default(decls, defs);
            let _ = decls.symbols.format_mesen_mlb(decls, defs);
        }
    }
});
