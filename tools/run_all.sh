#!/bin/bash
# Runs every registered check (quick or thorough) sequentially and prints a one-line summary per property.
TIER="${1:-quick}"
cd /verif
for P in $(python3 -c "import json; print(' '.join(c['property_id'] for c in json.load(open('MANIFEST.json'))['checks']))"); do
  OUT=$(./check "$P" "$TIER" 2>&1); RC=$?
  echo "$P rc=$RC $(echo "$OUT" | grep -m1 '^property=' | sed 's/property=[A-Z0-9]* //' | cut -c1-170)"
  echo "$OUT" | grep '^VIOLATION\|^INCONCLUSIVE' | head -3 | cut -c1-250
done
