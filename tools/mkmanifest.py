#!/usr/bin/env python3
"""Regenerates /verif/MANIFEST.json from the SPEC of every check module that exists."""
import importlib, json, os, sys
HERE = os.path.dirname(os.path.dirname(os.path.abspath(__file__)))
sys.path.insert(0, os.path.join(HERE, "monitors"))
props = [json.loads(l) for l in open(os.path.join(HERE, "properties.jsonl"))]
hooks = json.load(open(os.path.join(HERE, "tools", "hooks.json")))
na_reasons = json.load(open(os.path.join(HERE, "tools", "not_applicable.json")))
checks, na = [], []
for p in props:
    pid = p["id"]
    path = os.path.join(HERE, "monitors", "checks", pid.lower() + ".py")
    if not os.path.exists(path):
        na.append({"property_id": pid, "reason": na_reasons.get(pid, "no check registered for this property yet (machinery under construction); nothing is claimed")})
        continue
    mod = importlib.import_module("checks." + pid.lower())
    s = mod.SPEC
    checks.append({
        "property_id": pid,
        "quick_cmd": "./check %s quick" % pid,
        "thorough_cmd": "./check %s thorough" % pid,
        "evidence_file": "/verif/evidence/%s.json" % pid,
        "replay_cmd_template": "./check %s --replay {path}" % pid,
        "engine": "casm-monitors",
        "level_claimed": {"category": s["level"], "text": s["level_text"], "design_ref": s.get("design_ref", "DESIGN.md section 5")},
        "level_note": s["level_note"],
        "technique": s["technique"],
    })
m = {
    "version": 1,
    "setup_cmd": "./check --setup",
    "hooks": hooks,
    "engines": [{
        "name": "casm-monitors",
        "path": "/verif/monitors/runner.py",
        "serves_properties": [c["property_id"] for c in checks],
        "kind_free_text": "runtime monitoring: recorder (harness/casm-probe, links the real library built from /repo with --cfg hlorenzi_customasm_verif) + Python workload generators, reference models and offline checkers over observation records; real-binary process monitors under rlimits",
    }],
    "checks": checks,
    "not_applicable": na,
    "notes": "Every check rebuilds from /repo's working tree (cargo, incremental, offline). Exit 0 held / 1 VIOLATION / 2 INCONCLUSIVE (never a VIOLATION line). Known findings: /verif/KNOWN_FINDINGS.jsonl.",
}
json.dump(m, open(os.path.join(HERE, "MANIFEST.json"), "w"), indent=1)
print("checks:", [c["property_id"] for c in checks], "not_applicable:", [n["property_id"] for n in na])
