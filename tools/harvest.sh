#!/bin/bash
# Verifies a sub-agent's seeded change in its scratch worktree and stores it under /verif/seeded/<id>/.
# usage: tools/harvest.sh <id>      (worktree /tmp/wt/<id>)
set -u
ID="$1"
WT="/tmp/wt/$ID"
OUT="/verif/seeded/$ID"
cd "$WT" || exit 2
export CARGO_NET_OFFLINE=true
git diff -- src > patch.diff
[ -s patch.diff ] || { echo "EMPTY PATCH"; exit 2; }
TESTLINE=$(cargo test --offline 2>&1 | grep "test result" | head -1)
cargo build --offline >/dev/null 2>&1
bash demo.sh > demo.with.log 2>&1; RC_WITH=$?
git apply -R patch.diff || { echo "CANNOT REVERT PATCH"; exit 2; }
cargo build --offline >/dev/null 2>&1
bash demo.sh > demo.without.log 2>&1; RC_WITHOUT=$?
git apply patch.diff
echo "id=$ID tests='$TESTLINE' demo_with_change_rc=$RC_WITH demo_without_change_rc=$RC_WITHOUT"
case "$TESTLINE" in *"605 passed; 0 failed"*) T_OK=1;; *) T_OK=0;; esac
if [ "$T_OK" = 1 ] && [ "$RC_WITH" != 0 ] && [ "$RC_WITHOUT" = 0 ]; then
  mkdir -p "$OUT"
  cp patch.diff "$OUT/patch.diff"
  cp demo.sh "$OUT/demo.sh"
  [ -d demo ] && rm -rf "$OUT/demo" && cp -r demo "$OUT/demo"
  python3 - "$ID" "$TESTLINE" "$RC_WITH" "$RC_WITHOUT" <<'PY'
import json, sys, os
id_, testline, rcw, rcwo = sys.argv[1:5]
wt = "/tmp/wt/" + id_
try:
    meta = json.load(open(os.path.join(wt, "meta.json")))
except Exception as e:
    meta = {"property": id_[:3], "summary": "(agent meta.json unreadable: %s)" % e}
meta["id"] = id_
meta["confirmed_by_me"] = {
    "worktree": wt,
    "cargo_test_with_change": testline,
    "demo_rc_with_change": int(rcw),
    "demo_rc_without_change": int(rcwo),
    "note": "demo.sh refers to the scratch worktree path it was written in; patch.diff applies to /repo with `git -C /repo apply`",
}
json.dump(meta, open("/verif/seeded/%s/meta.json" % id_, "w"), indent=1)
PY
  echo "KEPT $ID"
  cd / && git -C /repo worktree remove --force "$WT"
else
  echo "REJECTED $ID (kept worktree for inspection)"
fi
