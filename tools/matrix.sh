#!/bin/bash
# usage: tools/matrix.sh <logfile> <id:prop[,prop...]> ...
LOG="$1"; shift
for spec in "$@"; do
  ID="${spec%%:*}"; PROPS="${spec#*:}"
  /verif/tools/mutant_run.sh "$ID" quick ${PROPS//,/ } >> "$LOG" 2>&1
done
