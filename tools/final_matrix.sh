#!/bin/bash
# Runs every stored seeded change against its own property's check plus the related checks listed below
# (quick tier, scratch worktrees only) and writes seeded/RESULTS.tsv (id, check, rc, first signature).
# usage: tools/final_matrix.sh [id ...]     (default: all of /verif/seeded/*)
cd /verif
declare -A EXTRA=( [C01a]=C07 [C01c]=C06 [C02a]=C08 [C02b]=C08 [C02c]=C08 [C03a]=C18 [C03b]=C16 [C04a]=C01 [C04b]=C05
                   [C06c]=C12 [C07a]=C01 [C08a]=C02 [C08b]=C02 [C10a]=C17 [C11c]=C18 [C12c]=C06 [C17a]="C08 C02" [C18c]=C16 [C15d]=C16 [C15e]=C08 [C02e]=C17 [C05f]=C19 [C06f]=C11 [C01f]="C02 C08" [C12g]="C15 C16" [C18g]="C16 C03" [C13g]=C17 [C03g]=C12 [C06g]="C01 C15" [C14g]=C03 [C16g]=C14 [C09g]="C18 C03" )
IDS=("$@"); [ ${#IDS[@]} -eq 0 ] && IDS=($(ls seeded | grep '^C[0-9][0-9][a-z]$'))
LOG=/tmp/final_matrix.$$.log; : > "$LOG"
# run from a frozen copy of the machinery, so that /verif may be edited while the matrix runs
export VERIF_SNAPSHOT=/tmp/mw/snapshot
rm -rf "$VERIF_SNAPSHOT"; mkdir -p "$VERIF_SNAPSHOT"
rsync -a --exclude .target --exclude .git --exclude evidence --exclude replays --exclude seeded /verif/ "$VERIF_SNAPSHOT"/
# PAR=n runs n changes at a time (each in its own scratch worktree, harness copy and target directory)
PAR=${PAR:-1}
for ID in "${IDS[@]}"; do
  OWN=${ID:0:3}
  ( tools/mutant_run.sh "$ID" quick $OWN ${EXTRA[$ID]:-} > "$LOG.$ID" 2>&1 ) &
  while [ "$(jobs -rp | wc -l)" -ge "$PAR" ]; do wait -n; done
done
wait
cat "$LOG".* >> "$LOG" 2>/dev/null; rm -f "$LOG".*
python3 - "$LOG" "${IDS[@]}" <<'PY'
import sys, re, os
log = sys.argv[1]; ids = set(sys.argv[2:])
rows = {}
path = "/verif/seeded/RESULTS.tsv"
if os.path.exists(path):
    for l in open(path):
        p = l.rstrip("\n").split("\t")
        if len(p) >= 4 and p[0] != "id":
            rows[(p[0], p[1])] = p
for l in open(log):
    m = re.match(r"MUTANT (\S+) check=(\S+) tier=\S+ rc=(\d+) violations=(\d+) :: (.*)", l)
    if m:
        sig = re.search(r"oracle=(\S+) sig=(\{.*?\})", m.group(5))
        rows[(m.group(1), m.group(2))] = [m.group(1), m.group(2), m.group(3), (sig.group(1) + " " + sig.group(2)) if sig else ""]
    elif l.startswith("PATCH-DOES-NOT-APPLY"):
        rows[(l.split()[1], "-")] = [l.split()[1], "-", "patch-does-not-apply", ""]
with open(path, "w") as f:
    f.write("id\tcheck\trc\tfirst_signature\n")
    for k in sorted(rows):
        f.write("\t".join(rows[k]) + "\n")
print(open(path).read())
PY
rm -f "$LOG"; rm -rf "$VERIF_SNAPSHOT"
