#!/usr/bin/env python3
"""Rebuilds the seeded-change table of DESIGN.md section 9 from seeded/*/meta.json and seeded/RESULTS.tsv
(written by tools/final_matrix.sh)."""
import glob, json, os, re

V = "/verif"
res = {}
p = os.path.join(V, "seeded", "RESULTS.tsv")
if os.path.exists(p):
    for l in open(p):
        f = l.rstrip("\n").split("\t")
        if len(f) >= 3 and f[0] != "id":
            res.setdefault(f[0], []).append((f[1], f[2], f[3] if len(f) > 3 else ""))
rows = []
for d in sorted(glob.glob(os.path.join(V, "seeded", "C[0-9][0-9][a-z]"))):
    i = os.path.basename(d)
    m = json.load(open(os.path.join(d, "meta.json")))
    files = [l.split(" b/")[-1].strip() for l in open(os.path.join(d, "patch.diff")) if l.startswith("diff --git")]
    summ = re.sub(r"\s+", " ", m.get("summary", "")).strip()
    summ = re.sub(r"^In (`?[\w/.:]+`?)[ ,(]+", "", summ)
    if len(summ) > 150:
        summ = summ[:147].rsplit(" ", 1)[0] + "…"
    caught, missed, other = [], [], []
    for chk, rc, sig in res.get(i, []):
        kind = ""
        mm = re.search(r'"kind": "([^"]+)"', sig) or re.search(r'"mode": "([^"]+)"', sig) or re.search(r'"what": "([^"]+)"', sig) or re.search(r'"axis": "([^"]+)"', sig)
        if mm:
            kind = mm.group(1)
        if rc == "1":
            caught.append("%s (%s)" % (chk, kind) if kind else chk)
        elif rc == "0":
            missed.append(chk)
        else:
            other.append("%s: %s" % (chk, rc))
    rows.append("| %s | `%s` | %s | %s | %s |" % (i, ", ".join(os.path.basename(f) for f in files), summ.replace("|", "\\|"),
                                                  "; ".join(caught) or "—", ", ".join(missed + other) or "—"))
n_total = len(rows)
n_own = sum(1 for i in res if any(chk == i[:3] and rc == "1" for chk, rc, _ in res[i]))
n_any = sum(1 for i in res if any(rc == "1" for _, rc, _ in res[i]))
table = ["| id | file | change (from the author's summary) | caught by (first signature) | not caught by |", "|---|---|---|---|---|"] + rows
table.append("")
table.append("%d seeded changes; %d caught by the check of their own property, %d by at least one check (final matrix, quick tier, seed 1)." % (n_total, n_own, n_any))
text = open(os.path.join(V, "DESIGN.md")).read()
b, e = "<!-- SEEDED-TABLE-BEGIN -->", "<!-- SEEDED-TABLE-END -->"
if b not in text:
    text = text.replace("SEEDED_TABLE_PLACEHOLDER", b + "\n" + e)
text = text[:text.index(b) + len(b)] + "\n" + "\n".join(table) + "\n" + text[text.index(e):]
open(os.path.join(V, "DESIGN.md"), "w").write(text)
print("\n".join(table[-3:]))
