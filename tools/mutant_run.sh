#!/bin/bash
# Runs checks against a seeded change in a scratch copy (never touches /repo).
# usage: tools/mutant_run.sh <seeded-id> <tier> <prop> [<prop>...]
set -u
ID="$1"; TIER="$2"; shift 2
BASE=/tmp/mw/$ID
rm -rf "$BASE"; mkdir -p "$BASE"
git -C /repo worktree add -q --detach "$BASE/repo" HEAD || exit 2
if ! git -C "$BASE/repo" apply "/verif/seeded/$ID/patch.diff"; then
  echo "PATCH-DOES-NOT-APPLY $ID"; git -C /repo worktree remove --force "$BASE/repo"; rm -rf "$BASE"; exit 3
fi
cp -r "${VERIF_SNAPSHOT:-/verif}/harness" "$BASE/harness"; rm -rf "$BASE/harness/target"
sed -i "s#path = \"/repo\"#path = \"$BASE/repo\"#" "$BASE/harness/Cargo.toml"
export CASM_REPO="$BASE/repo" VERIF_HARNESS="$BASE/harness" VERIF_TARGET="$BASE/target" VERIF_EVIDENCE="$BASE/evidence" VERIF_REPLAYS="$BASE/replays"
for P in "$@"; do
  OUT=$(cd "${VERIF_SNAPSHOT:-/verif}" && ./check "$P" "$TIER" 2>&1); RC=$?
  NV=$(echo "$OUT" | grep -c '^VIOLATION')
  echo "MUTANT $ID check=$P tier=$TIER rc=$RC violations=$NV :: $(echo "$OUT" | grep -m1 -A1 '^VIOLATION' | tr '\n' ' ' | cut -c1-300)"
  [ "$RC" = 2 ] && echo "$OUT" | grep INCONCLUSIVE | head -3
done
git -C /repo worktree remove --force "$BASE/repo"
rm -rf "$BASE"
