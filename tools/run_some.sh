#!/bin/bash
# usage: tools/run_some.sh <tier> <Cxx> [<Cxx> ...]   - like run_all.sh for selected properties
TIER="$1"; shift
cd /verif
for P in "$@"; do
  OUT=$(./check "$P" "$TIER" 2>&1); RC=$?
  echo "$P rc=$RC $(echo "$OUT" | grep -m1 '^property=' | sed 's/property=[A-Z0-9]* //' | cut -c1-170)"
  echo "$OUT" | grep '^VIOLATION\|^INCONCLUSIVE' | head -3 | cut -c1-250
done
